// REPLAY-FOR: DisableQueueNotify_dtor
// Replay for the failed obligation DisableQueueNotify_dtor.assertion "monitor discipline" (finding D6): the schedule
// named by the obligation -- the waiter has evaluated its predicate (false) with queueListMutex held and has not
// blocked yet; the last DisableQueueNotify is destroyed in that window: it decrements the counter and notifies
// WITHOUT ever taking queueListMutex -- is forced on the real EventQueue through an injectable Threading policy whose
// condition variable parks the waiter between predicate evaluation and blocking.
#include <eventpp/eventqueue.h>
#include <atomic>
#include <chrono>
#include <condition_variable>
#include <cstdio>
#include <mutex>
#include <thread>

static std::atomic<bool> inWindow(false);
static std::atomic<bool> armed(false);

struct ParkingConditionVariable
{
	std::condition_variable cv;
	void notify_one() noexcept { cv.notify_one(); }
	void notify_all() noexcept { cv.notify_all(); }
	template <class Predicate>
	void wait(std::unique_lock<std::mutex> & lock, Predicate pred)
	{
		while(! pred()) {
			if(armed.exchange(false)) {
				// the waiter has seen "false" and still holds the mutex: give the other thread its chance now
				inWindow = true;
				std::this_thread::sleep_for(std::chrono::milliseconds(300));
			}
			cv.wait(lock);
		}
	}
	template <class Rep, class Period, class Predicate>
	bool wait_for(std::unique_lock<std::mutex> & lock, const std::chrono::duration<Rep, Period> & d, Predicate pred)
	{
		return cv.wait_for(lock, d, pred);
	}
};

struct ParkingThreading
{
	using Mutex = std::mutex;
	template <typename T> using Atomic = std::atomic<T>;
	using ConditionVariable = ParkingConditionVariable;
};
struct Policies { using Threading = ParkingThreading; };
using Q = eventpp::EventQueue<int, void(int), Policies>;

int main()
{
	Q queue;
	queue.appendListener(1, [](int){});
	std::atomic<bool> woke(false);
	Q::DisableQueueNotify * guard = new Q::DisableQueueNotify(&queue);
	queue.enqueue(1, 1);                       // an event is pending, notification is disabled
	armed = true;
	std::thread waiter([&]{ queue.wait(); woke = true; });
	while(! inWindow) std::this_thread::yield();
	delete guard;                              // last DisableQueueNotify dies while the waiter is between check and block
	for(int i = 0; i < 300 && ! woke; ++i) std::this_thread::sleep_for(std::chrono::milliseconds(10));
	const bool lost = ! woke;
	if(lost) {
		std::printf("lost wake-up: event pending, notification enabled, no DisableQueueNotify alive, waiter still blocked after 3 s\n");
		queue.enqueue(1, 2);                   // rescue the waiter so the program can end
	}
	waiter.join();
	return lost ? 1 : 0;
}
