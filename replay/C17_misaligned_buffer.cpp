// REPLAY-FOR: lemma_anydata_align
// D8: AnyData's inline buffer is a std::array<uint8_t, N> placed right after one pointer, and the class is only
// pointer-aligned: a stored type that needs 16-byte alignment (long double, SSE vectors, alignas(16) structs) is
// constructed by placement new at a misaligned address (undefined behaviour; flagged by -fsanitize=undefined, which
// the replay harness uses).  exit != 0 = defect reproduced.
#include <eventpp/utilities/anydata.h>
#include <cstdio>
#include <cstdint>
#include <cstddef>
struct alignas(16) Vec4 { float v[4]; };
int main() {
	int bad = 0;
	for(int i = 0; i < 4; ++i) {
		eventpp::AnyData<64> a(Vec4{{1, 2, 3, 4}});
		eventpp::AnyData<64> b((long double)1.5L);
		const Vec4 & v = a.get<Vec4>();
		if(reinterpret_cast<std::uintptr_t>(&v) % alignof(Vec4) != 0) ++bad;
		if(reinterpret_cast<std::uintptr_t>(b.getAddress()) % alignof(long double) != 0) ++bad;
	}
	std::printf("alignof(AnyData<64>)=%zu misaligned=%d\n", alignof(eventpp::AnyData<64>), bad);
	return bad ? 1 : 0;
}
