// REPLAY-FOR: CRCW_call|CRDW_call
// Replay for the failed obligations CRCW_call / CRDW_call "arithmetic overflow on signed - in --triggerCount" and the
// postcondition for trigger count t = INT_MIN (finding D9): a listener added with trigger count INT_MIN must be invoked
// on exactly the first max(n, 1) = 1 trigger.
#include <eventpp/callbacklist.h>
#include <eventpp/eventdispatcher.h>
#include <eventpp/utilities/counterremover.h>
#include <climits>
#include <cstdio>
int main()
{
	int failures = 0;
	{
		eventpp::CallbackList<void()> list; int calls = 0;
		eventpp::counterRemover(list).append([&]{ ++calls; }, INT_MIN);
		list(); list(); list();
		if(calls != 1) { std::printf("CallbackList: trigger count INT_MIN: listener invoked %d times in 3 triggers (expected 1)\n", calls); ++failures; }
	}
	{
		eventpp::EventDispatcher<int, void()> d; int calls = 0;
		eventpp::counterRemover(d).appendListener(7, [&]{ ++calls; }, INT_MIN);
		d.dispatch(7); d.dispatch(7); d.dispatch(7);
		if(calls != 1) { std::printf("EventDispatcher: trigger count INT_MIN: listener invoked %d times in 3 triggers (expected 1)\n", calls); ++failures; }
	}
	return failures ? 1 : 0;
}
