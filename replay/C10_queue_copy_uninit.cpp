// REPLAY-FOR: Q_ctor_copy|Q_ctor_move
// Replay for the failed obligations Q_ctor_copy / Q_ctor_move.postcondition (queueEmptyCounter == 0 && queueNotifyCounter == 0):
// the counterexample is "object storage held arbitrary bytes before construction".  A copy / move constructed
// EventQueue is built by placement new in pre-filled storage and must report empty and be waitable (finding D3).
#include <eventpp/eventqueue.h>
#include <cstdio>
#include <cstring>
#include <new>
#include <chrono>
int main()
{
	using Q = eventpp::EventQueue<int, void(int)>;
	int failures = 0;
	Q source;
	source.appendListener(1, [](int){});
	for(int pass = 0; pass < 2; ++pass) {
		alignas(Q) static unsigned char storage[sizeof(Q)];
		std::memset(storage, 0xff, sizeof(storage));
		Q * q = pass == 0 ? new (storage) Q(source) : new (storage) Q(std::move(source));
		if(! q->emptyQueue()) { std::printf("%s-constructed queue does not report empty\n", pass == 0 ? "copy" : "move"); ++failures; }
		q->enqueue(1, 5);
		if(! q->waitFor(std::chrono::milliseconds(20))) { std::printf("%s-constructed queue: waitFor() false although an event is pending\n", pass == 0 ? "copy" : "move"); ++failures; }
		q->process();
		if(! q->emptyQueue()) { std::printf("%s-constructed queue not empty after process()\n", pass == 0 ? "copy" : "move"); ++failures; }
		q->~Q();
	}
	return failures ? 1 : 0;
}
