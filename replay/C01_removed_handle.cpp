// REPLAY-FOR: CL_remove|CL_insert|CL_ownsHandle|CL_doFreeNode|CL_doInsert
// Replay for the "handle of an already removed but still referenced callback" window class (finding D1):
// the failed obligations are CL_remove.postcondition (result == "handle referred to a callback that is in the
// list"), CL_doFreeNode.precondition (LIVE(*node)), CL_doInsert.precondition (LIVE(*beforeNode)) and
// CL_ownsHandle.postcondition.  The window "node locked through the handle, marked removed" is reached on the
// real CallbackList by a callback that removes itself (the running traversal keeps the node alive).
#include <eventpp/callbacklist.h>
#include <cstdio>
#include <vector>
int main()
{
	using CL = eventpp::CallbackList<void()>;
	int failures = 0;
	{	// remove through a removed handle must be inert and return false
		CL list; CL::Handle hA, hB, hC; bool second = true; bool ownsAfter = true; bool ownsC = false;
		hA = list.append([]{});
		hB = list.append([&]{
			list.remove(hB);               // B removes itself: node stays referenced by the traversal
			second = list.remove(hB);      // must be false and change nothing
			ownsAfter = list.ownsHandle(hB);   // must be false
		});
		hC = list.append([]{});
		list();
		ownsC = list.ownsHandle(hC);
		if(second)    { std::printf("remove() through an already removed handle returned true\n"); ++failures; }
		if(ownsAfter) { std::printf("ownsHandle() true for an already removed callback\n"); ++failures; }
		if(!ownsC)    { std::printf("ownsHandle() false for a live callback after a double remove\n"); ++failures; }
	}
	{	// insert before a removed (still referenced) callback must append at the back
		CL list; CL::Handle hA, hB; std::vector<int> order;
		hA = list.append([&]{ order.push_back(1); });
		hB = list.append([&]{
			list.remove(hB);
			list.insert([&]{ order.push_back(9); }, hB);   // hB is no longer in the list -> goes to the back
		});
		list.append([&]{ order.push_back(3); });
		list();            // first invocation: new callback not called
		order.clear();
		list();            // second invocation: 1, 3, 9 expected
		if(order != std::vector<int>{1, 3, 9}) {
			std::printf("insert before a removed callback: order is"); for(int v : order) std::printf(" %d", v); std::printf(" (expected 1 3 9)\n");
			++failures;
		}
	}
	return failures ? 1 : 0;
}
