// REPLAY-FOR: ED_dispatch
// D5: EventDispatcherBase::dispatch(Args ...args) evaluates
//     directDispatch(GetEvent::getEvent(args...), std::forward<Args>(args)...)
// where directDispatch takes Args by value: initialising that by-value parameter MOVES from `args`, and the first
// operand READS `args`; the two are unsequenced.  g++ initialises the parameters right to left, so getEvent reads a
// moved-from argument and the dispatch goes to the listeners of the wrong (empty) event.
// exit 1 = the listener registered for the dispatched key was not reached, 0 = reached.
#include <eventpp/eventdispatcher.h>
#include <cstdio>
#include <string>

struct Policies
{
	// the event is derived from the (by value) argument itself
	static std::string getEvent(const std::string & s) { return s; }
};

int main()
{
	int failures = 0;
	{
		eventpp::EventDispatcher<std::string, void (std::string), Policies> dispatcher;
		int called = 0;
		std::string received;
		const std::string key = "a key long enough to defeat the small string optimisation";
		dispatcher.appendListener(key, [&](std::string s) { ++called; received = s; });
		dispatcher.dispatch(std::string(key));
		if(called != 1 || received != key) {
			std::printf("FAIL: getEvent policy: listener of the dispatched key called %d time(s), received '%s'\n", called, received.c_str());
			++failures;
		}
	}
	{
		// default policy: the first argument is the event
		eventpp::EventDispatcher<std::string, void (std::string)> dispatcher;
		int called = 0;
		std::string received;
		const std::string key = "another key long enough to defeat the small string optimisation";
		dispatcher.appendListener(key, [&](std::string s) { ++called; received = s; });
		dispatcher.dispatch(std::string(key));
		if(called != 1 || received != key) {
			std::printf("FAIL: default policy: listener of the dispatched key called %d time(s), received '%s'\n", called, received.c_str());
			++failures;
		}
	}
	if(failures == 0) std::printf("OK: dispatch reached the listeners of the dispatched key with intact arguments\n");
	return failures ? 1 : 0;
}
