// REPLAY-FOR: Q_enqueue#notify|Q_enqueue_2#notify
// D12 (enqueue side): enqueue decides whether to wake a waiter from an UNLOCKED emptyQueue(); a processUntil put-back
// between its two reads makes it see "empty" although the event it has just inserted is pending.
//
// Forced interleaving (injectable Mutex / Atomic of the Threading policy + a blocking predicate), real eventpp code:
//   W : wait() on the empty queue: predicate false, blocks.
//   E : enqueue(7): doEnqueue inserts the event; PAUSED right after it releases queueListMutex.
//   A : processUntil(pred): swaps the event out (queueEmptyCounter == 1); pred blocks until E is at its second pause.
//   E : resumes: doCanProcess() -> emptyQueue(): queueList.empty() == true; PAUSED before loading queueEmptyCounter.
//   A : pred returns true: event put back, queueEmptyCounter -> 0, returns.
//   E : loads 0 -> emptyQueue() == true -> no notify_one().
// Now: one event pending, notification enabled, W blocked for ever.  exit 1 = defect reproduced, 0 = absent.
#include <eventpp/eventqueue.h>

#include <atomic>
#include <chrono>
#include <condition_variable>
#include <cstdio>
#include <mutex>
#include <thread>

namespace {

thread_local int pauseAtUnlock = 0;   // pause this thread after its n-th mutex unlock
thread_local int pauseAtLoad = 0;     // pause this thread before its n-th atomic load
std::atomic<bool> ePaused1(false), eGo1(false), ePaused2(false), aDone(false);

struct HookMutex
{
	void lock() { m.lock(); }
	bool try_lock() { return m.try_lock(); }
	void unlock()
	{
		m.unlock();
		if(pauseAtUnlock > 0 && --pauseAtUnlock == 0) {
			ePaused1.store(true);
			while(! eGo1.load()) std::this_thread::yield();
		}
	}
	std::mutex m;
};

template <typename T>
struct HookAtomic : public std::atomic<T>
{
	HookAtomic() noexcept = default;
	constexpr HookAtomic(T desired) noexcept : std::atomic<T>(desired) {}
	using std::atomic<T>::operator =;

	T load(std::memory_order order = std::memory_order_seq_cst) const noexcept
	{
		if(pauseAtLoad > 0 && --pauseAtLoad == 0) {
			ePaused2.store(true);
			while(! aDone.load()) std::this_thread::yield();
		}
		return std::atomic<T>::load(order);
	}
};

struct Policies
{
	using Threading = eventpp::GeneralThreading<HookMutex, HookAtomic, std::condition_variable_any>;
};

using EQ = eventpp::EventQueue<int, void (int), Policies>;

} // namespace

int main()
{
	EQ queue;
	int dispatched = 0;
	queue.appendListener(1, [&](int) { ++dispatched; });

	std::atomic<bool> waiterReleased(false);
	std::thread waiter([&]() {
		queue.wait();
		waiterReleased.store(true);
	});
	std::this_thread::sleep_for(std::chrono::milliseconds(200));   // W evaluates its predicate (false) and blocks

	std::thread e([&]() {
		// mutex unlocks made by enqueue on a fresh queue (free list empty): 1 = queueListMutex (doEnqueue)
		// atomic loads made afterwards: 1 = queueEmptyCounter (emptyQueue, after queueList.empty())
		pauseAtUnlock = 1;
		pauseAtLoad = 1;
		queue.enqueue(1, 7);
		pauseAtUnlock = 0; pauseAtLoad = 0;
	});
	for(int i = 0; i < 300 && ! ePaused1.load(); ++i) std::this_thread::sleep_for(std::chrono::milliseconds(10));
	const bool forced1 = ePaused1.load();

	std::atomic<bool> aInPredicate(false);
	std::thread a([&]() {
		queue.processUntil([&](int) -> bool {
			aInPredicate.store(true);
			for(int i = 0; i < 300 && ! ePaused2.load(); ++i) std::this_thread::sleep_for(std::chrono::milliseconds(10));
			return true;    // stop: the event is put back
		});
		aDone.store(true);
	});
	for(int i = 0; i < 300 && ! aInPredicate.load() && ! aDone.load(); ++i) std::this_thread::sleep_for(std::chrono::milliseconds(10));
	eGo1.store(true);
	a.join();
	aDone.store(true);
	e.join();
	const bool forced = forced1 && ePaused2.load();

	bool ok = false;
	for(int i = 0; i < 300; ++i) {
		if(waiterReleased.load()) { ok = true; break; }
		std::this_thread::sleep_for(std::chrono::milliseconds(10));
	}
	const bool pending = ! queue.emptyQueue();
	if(! ok) {
		std::printf("FAIL: event pending=%d, dispatched=%d, notification enabled, but the waiter is still blocked "
			"(lost wake-up; schedule forced=%d)\n", (int)pending, dispatched, (int)forced);
		queue.enqueue(1, 8);
		waiter.join();
		return 1;
	}
	waiter.join();
	std::printf("OK: waiter released (schedule forced=%d)\n", (int)forced);
	return 0;
}
