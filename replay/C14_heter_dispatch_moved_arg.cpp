// REPLAY-FOR: HDI_doDispatch__|HDI_dispatch__
// D11: HeterEventDispatcherBase::doDispatch (ArgumentPassingIncludeEvent) evaluates
//     const auto e = GetEvent::getEvent(std::forward<T>(first), args...);
//     (*callableList)(std::forward<T>(first), std::forward<Args>(args)...);
// `first` is forwarded TWICE: a getEvent that takes its parameter by value (or the default getEvent, whose `return e;`
// of an rvalue-reference parameter is an implicit move with clang++ and from C++20 on) moves the caller's rvalue
// argument away, and the listeners then receive a moved-from object instead of the value the caller supplied.
// exit 1 = the listener did not receive the dispatched value, 0 = it did.
#include <eventpp/hetereventdispatcher.h>
#include <cstdio>
#include <string>

struct PoliciesByValue
{
	using ArgumentPassingMode = eventpp::ArgumentPassingIncludeEvent;
	// by value: a perfectly ordinary policy signature
	static std::string getEvent(std::string s) { return s; }
	static std::string getEvent(std::string s, int) { return s; }
};
struct PoliciesDefault
{
	using ArgumentPassingMode = eventpp::ArgumentPassingIncludeEvent;
};

template <typename P>
int run(const char * what)
{
	int failures = 0;
	eventpp::HeterEventDispatcher<std::string, eventpp::HeterTuple<void (std::string), void (std::string, int)>, P> dispatcher;
	const std::string key = "a key long enough to defeat the small string optimisation";
	int called = 0, called2 = 0;
	std::string received, received2;
	dispatcher.appendListener(key, [&](std::string s) { ++called; received = s; });
	dispatcher.appendListener(key, [&](std::string s, int) { ++called2; received2 = s; });
	dispatcher.dispatch(std::string(key));          // temporary
	std::string movable(key);
	dispatcher.dispatch(std::move(movable), 5);     // xvalue
	if(called != 1 || received != key) {
		std::printf("FAIL: %s: dispatch(temporary): listener called %d time(s), received '%s'\n", what, called, received.c_str());
		++failures;
	}
	if(called2 != 1 || received2 != key) {
		std::printf("FAIL: %s: dispatch(std::move(x), 5): listener called %d time(s), received '%s'\n", what, called2, received2.c_str());
		++failures;
	}
	std::string lv(key);
	dispatcher.dispatch(lv);
	if(lv != key || called != 2 || received != key) {
		std::printf("FAIL: %s: dispatch(lvalue): caller's object '%s', listener called %d time(s), received '%s'\n", what, lv.c_str(), called, received.c_str());
		++failures;
	}
	return failures;
}

int main()
{
	int failures = run<PoliciesByValue>("getEvent(std::string) by value") + run<PoliciesDefault>("default getEvent");
	if(failures == 0) std::printf("OK: heterogeneous dispatch handed the listeners the argument values the caller supplied\n");
	return failures ? 1 : 0;
}
