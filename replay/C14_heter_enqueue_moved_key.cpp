// REPLAY-FOR: HQ_doEnqueueI__
// D10: HeterEventQueueBase::doEnqueue (ArgumentPassingIncludeEvent) builds the queued item with
//     QueuedItemType(index, GetEvent::getEvent(std::forward<T>(first), args...), &doDispatchItem<...>,
//                    ArgsTuple(std::forward<T>(first), std::forward<Args>(args)...))
// - one constructor call whose arguments are unsequenced: the last one MOVES from `first` (for an rvalue / temporary),
// the second one READS `first`.  g++ evaluates right to left: getEvent reads a moved-from object, the event is stored
// under the wrong key and process() delivers it to nobody.  With a compiler that evaluates left to right and moves on
// `return e;` of an rvalue-reference parameter (clang++, g++ -std=c++20) the LISTENER gets the moved-from argument.
// exit 1 = the listener registered for the enqueued key was not reached with the value enqueued, 0 = reached.
#include <eventpp/hetereventqueue.h>
#include <cstdio>
#include <string>

struct Policies
{
	using ArgumentPassingMode = eventpp::ArgumentPassingIncludeEvent;
};
struct PoliciesGet
{
	using ArgumentPassingMode = eventpp::ArgumentPassingIncludeEvent;
	static std::string getEvent(const std::string & s) { return s; }
	static std::string getEvent(const std::string & s, int) { return s; }
};

template <typename P>
int run(const char * what)
{
	int failures = 0;
	eventpp::HeterEventQueue<std::string, eventpp::HeterTuple<void (std::string), void (std::string, int)>, P> queue;
	const std::string key = "a key long enough to defeat the small string optimisation";
	int called = 0, called2 = 0;
	std::string received, received2;
	queue.appendListener(key, [&](std::string s) { ++called; received = s; });
	queue.appendListener(key, [&](std::string s, int) { ++called2; received2 = s; });
	queue.enqueue(std::string(key));          // temporary
	std::string movable(key);
	queue.enqueue(std::move(movable), 5);     // xvalue
	queue.process();
	if(called != 1 || received != key) {
		std::printf("FAIL: %s: enqueue(temporary): listener of the enqueued key called %d time(s), received '%s'\n", what, called, received.c_str());
		++failures;
	}
	if(called2 != 1 || received2 != key) {
		std::printf("FAIL: %s: enqueue(std::move(x), 5): listener of the enqueued key called %d time(s), received '%s'\n", what, called2, received2.c_str());
		++failures;
	}
	// an lvalue is copied: the caller's object keeps its value
	std::string lv(key);
	const int calledBefore = called;
	queue.enqueue(lv);
	queue.process();
	if(lv != key || called != calledBefore + 1) {
		std::printf("FAIL: %s: enqueue(lvalue): caller's object '%s', listener called %d time(s)\n", what, lv.c_str(), called);
		++failures;
	}
	return failures;
}

int main()
{
	int failures = run<Policies>("default getEvent") + run<PoliciesGet>("user getEvent(const std::string &)");
	if(failures == 0) std::printf("OK: enqueue stored the event under the key and with the argument the caller passed\n");
	return failures ? 1 : 0;
}
