// REPLAY-FOR: DisableQueueNotify_dtor#notify|Q_emptyQueue#conc
// D12: lost wake-up / false "empty" when a processUntil (or processIf) put-back races with the two unlocked reads of
// emptyQueue() made by ~DisableQueueNotify.
//
// Forced interleaving (injectable Atomic of the Threading policy + a blocking predicate), real eventpp code only:
//   B : owns a DisableQueueNotify; one event is enqueued (no notification: disabled); waiter W blocks in wait().
//   A : processUntil(pred): swaps the event out of queueList (queueEmptyCounter == 1), pred stops at the event and
//       blocks until B is paused.
//   B : ~DisableQueueNotify: counter -> 0, doCanNotifyQueueAvailable() true, emptyQueue(): queueList.empty() == true
//       (swapped out), PAUSED right before it loads queueEmptyCounter.
//   A : pred returns true -> the event is put back into queueList, queueEmptyCounter -> 0, processUntil returns.
//   B : resumes, loads queueEmptyCounter == 0 -> emptyQueue() == true -> no notify_one().
// Now: one event pending, no DisableQueueNotify alive, W blocked for ever.  exit 1 = defect reproduced, 0 = absent.
#include <eventpp/eventqueue.h>

#include <atomic>
#include <chrono>
#include <condition_variable>
#include <cstdio>
#include <mutex>
#include <thread>

namespace {

thread_local int pauseAtLoad = 0;          // pause this thread at its n-th atomic load (counted from 1), before loading
std::atomic<bool> bPaused(false);
std::atomic<bool> aDone(false);
std::atomic<bool> aInPredicate(false);

template <typename T>
struct HookAtomic : public std::atomic<T>
{
	HookAtomic() noexcept = default;
	constexpr HookAtomic(T desired) noexcept : std::atomic<T>(desired) {}
	using std::atomic<T>::operator =;

	T load(std::memory_order order = std::memory_order_seq_cst) const noexcept
	{
		if(pauseAtLoad > 0 && --pauseAtLoad == 0) {
			bPaused.store(true);
			// bounded: with the repaired library this thread holds queueListMutex here and A needs it
			for(int i = 0; i < 200 && ! aDone.load(); ++i) {
				std::this_thread::sleep_for(std::chrono::milliseconds(10));
			}
		}
		return std::atomic<T>::load(order);
	}
};

struct Policies
{
	using Threading = eventpp::GeneralThreading<std::mutex, HookAtomic, std::condition_variable>;
};

using EQ = eventpp::EventQueue<int, void (int), Policies>;

} // namespace

int main()
{
	EQ queue;
	int dispatched = 0;
	queue.appendListener(1, [&](int) { ++dispatched; });

	std::atomic<bool> waiterReleased(false);
	std::atomic<bool> destroyGuard(false);
	std::atomic<bool> guardAlive(false);
	std::atomic<bool> emptyReportedByB(false);

	std::thread b([&]() {
		{
			EQ::DisableQueueNotify guard(&queue);
			guardAlive.store(true);
			while(! destroyGuard.load()) {
				std::this_thread::yield();
			}
			// loads made by ~DisableQueueNotify: 1 = queueNotifyCounter (doCanNotifyQueueAvailable),
			// 2 = queueEmptyCounter (emptyQueue, after queueList.empty())
			pauseAtLoad = 2;
		}
		pauseAtLoad = 0;
	});
	while(! guardAlive.load()) {
		std::this_thread::yield();
	}

	queue.enqueue(1, 7);    // notification disabled: nobody is woken

	std::thread waiter([&]() {
		queue.wait();
		waiterReleased.store(true);
	});
	std::this_thread::sleep_for(std::chrono::milliseconds(200));   // W evaluates its predicate (false) and blocks

	std::thread a([&]() {
		queue.processUntil([&](int) -> bool {
			aInPredicate.store(true);
			while(! bPaused.load()) {
				std::this_thread::yield();
			}
			return true;    // stop: the event is put back
		});
		aDone.store(true);
	});
	while(! aInPredicate.load()) {
		std::this_thread::yield();
	}
	destroyGuard.store(true);

	// safety net: if B never pauses (library changed so that it does not load twice), release A after 2 s
	for(int i = 0; i < 200 && ! bPaused.load(); ++i) {
		std::this_thread::sleep_for(std::chrono::milliseconds(10));
	}
	const bool forced = bPaused.load();
	bPaused.store(true);
	a.join();
	b.join();

	bool ok = false;
	for(int i = 0; i < 300; ++i) {
		if(waiterReleased.load()) {
			ok = true;
			break;
		}
		std::this_thread::sleep_for(std::chrono::milliseconds(10));
	}
	const bool pending = ! queue.emptyQueue();
	if(! ok) {
		std::printf("FAIL: event pending=%d, dispatched=%d, no DisableQueueNotify alive, but the waiter is still blocked "
			"(lost wake-up; schedule forced=%d)\n", (int)pending, dispatched, (int)forced);
		queue.enqueue(1, 8);   // release the waiter to exit cleanly
		waiter.join();
		return 1;
	}
	waiter.join();
	std::printf("OK: waiter released (schedule forced=%d)\n", (int)forced);
	return 0;
}
