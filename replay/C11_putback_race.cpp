// REPLAY-FOR: Q_emptyQueue#conc
// D12 seen through C11: emptyQueue() returns true although an event whose enqueue completed before the call began is
// still pending (neither dispatched, taken nor cleared).
//
// Forced interleaving (injectable Atomic of the Threading policy + a blocking predicate), real eventpp code only:
//   main : enqueue(1, 7) completes.
//   A    : processUntil(pred): swaps the event out of queueList (queueEmptyCounter == 1); pred stops at the event and
//          blocks until B is paused.
//   B    : emptyQueue(): queueList.empty() == true (swapped out), PAUSED right before it loads queueEmptyCounter.
//   A    : pred returns true -> the event is put back, queueEmptyCounter -> 0, processUntil returns.
//   B    : resumes, loads 0 -> returns true.
// exit 1 = emptyQueue() said "empty" with the event pending (defect reproduced), 0 = absent.
#include <eventpp/eventqueue.h>

#include <atomic>
#include <chrono>
#include <condition_variable>
#include <cstdio>
#include <mutex>
#include <thread>

namespace {

thread_local int pauseAtLoad = 0;
std::atomic<bool> bPaused(false);
std::atomic<bool> aDone(false);
std::atomic<bool> aInPredicate(false);

template <typename T>
struct HookAtomic : public std::atomic<T>
{
	HookAtomic() noexcept = default;
	constexpr HookAtomic(T desired) noexcept : std::atomic<T>(desired) {}
	using std::atomic<T>::operator =;

	T load(std::memory_order order = std::memory_order_seq_cst) const noexcept
	{
		if(pauseAtLoad > 0 && --pauseAtLoad == 0) {
			bPaused.store(true);
			// bounded: with the repaired library this thread holds queueListMutex here and A needs it
			for(int i = 0; i < 200 && ! aDone.load(); ++i) {
				std::this_thread::sleep_for(std::chrono::milliseconds(10));
			}
		}
		return std::atomic<T>::load(order);
	}
};

struct Policies
{
	using Threading = eventpp::GeneralThreading<std::mutex, HookAtomic, std::condition_variable>;
};

using EQ = eventpp::EventQueue<int, void (int), Policies>;

} // namespace

int main()
{
	EQ queue;
	int dispatched = 0;
	queue.appendListener(1, [&](int) { ++dispatched; });
	queue.enqueue(1, 7);

	std::thread a([&]() {
		queue.processUntil([&](int) -> bool {
			aInPredicate.store(true);
			for(int i = 0; i < 300 && ! bPaused.load(); ++i) {
				std::this_thread::sleep_for(std::chrono::milliseconds(10));
			}
			return true;    // stop: the event is put back
		});
		aDone.store(true);
	});
	while(! aInPredicate.load()) {
		std::this_thread::yield();
	}

	bool reportedEmpty = false;
	std::thread b([&]() {
		pauseAtLoad = 1;    // the only atomic load of emptyQueue(): queueEmptyCounter, after queueList.empty()
		reportedEmpty = queue.emptyQueue();
		pauseAtLoad = 0;
	});
	b.join();
	a.join();

	EQ::QueuedEvent ev;
	const bool stillPending = queue.peekEvent(&ev);
	if(reportedEmpty && stillPending && dispatched == 0) {
		std::printf("FAIL: emptyQueue() returned true, but the event enqueued before the call is still pending (dispatched=%d)\n", dispatched);
		return 1;
	}
	std::printf("OK: emptyQueue() returned %d, pending=%d\n", (int)reportedEmpty, (int)stillPending);
	return 0;
}
