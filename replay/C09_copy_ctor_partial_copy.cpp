// REPLAY-FOR: CL_ctor_copy
// Native replay of the obligation CL_ctor_copy#exc (C08 / C09): a callback whose copy constructor throws at the k-th node while a
// CallbackList is being copied; every callback object constructed must be destroyed exactly once (the partial copy is
// released by the destructor that runs because the copy constructor delegates).  Taken from seeded/C08_p1/demo.cpp.
// C08 demo 1: copying a CallbackList whose callback copy throws part-way must not leak
// the callbacks that were already copied into the new list.
//
// g++ -std=c++17 -I/repo/include -pthread mut1.cpp -o mut1 && ./mut1
// exit 0: every callback object constructed was destroyed exactly once
// exit 1: callback objects were leaked (or destroyed twice)

#include <eventpp/callbacklist.h>

#include <cstdio>
#include <set>
#include <stdexcept>

namespace {

std::set<const void *> live;      // addresses of the callback objects alive now
long constructed = 0;
long destroyed = 0;
long badDestroy = 0;              // destructor run on an object that is not alive
int copiesUntilThrow = -1;        // -1: never throw

struct CountedCallback
{
	CountedCallback() { born(); }
	CountedCallback(const CountedCallback &) {
		if(copiesUntilThrow == 0) {
			throw std::runtime_error("copy of callback failed");
		}
		if(copiesUntilThrow > 0) {
			--copiesUntilThrow;
		}
		born();
	}
	CountedCallback & operator = (const CountedCallback &) { return *this; }
	~CountedCallback() {
		++destroyed;
		if(live.erase(this) != 1) {
			++badDestroy;
		}
	}

	void operator() () const {}

private:
	void born() {
		++constructed;
		live.insert(this);
	}
};

struct Policies
{
	using Callback = CountedCallback;
	using Threading = eventpp::SingleThreading;
};

using CL = eventpp::CallbackList<void (), Policies>;

} // namespace

int main()
{
	bool thrown = false;

	{
		CL source;
		for(int i = 0; i < 4; ++i) {
			source.append(CountedCallback());
		}

		// The copy of the 3rd callback throws: two nodes are already linked
		// to each other (next / previous) in the list under construction.
		copiesUntilThrow = 2;
		try {
			CL copied(source);
			(void)copied;
		}
		catch(const std::runtime_error &) {
			thrown = true;
		}
		copiesUntilThrow = -1;

		// the source list is unharmed and still usable
		source();
	}

	std::printf("thrown=%d constructed=%ld destroyed=%ld stillAlive=%zu badDestroy=%ld\n",
		(int)thrown, constructed, destroyed, live.size(), badDestroy);

	if(! thrown) {
		std::printf("FAIL: the copy was expected to throw\n");
		return 2;
	}
	if(! live.empty() || constructed != destroyed || badDestroy != 0) {
		std::printf("FAIL: C08 violated, %zu callback object(s) leaked by the failed copy\n", live.size());
		return 1;
	}

	std::printf("OK\n");
	return 0;
}
