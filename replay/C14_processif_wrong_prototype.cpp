// REPLAY-FOR: HQ_doProcessIf
// D4 + D13: HeterEventQueue::processIf with a predicate that is callable with ONE prototype only.
//  D13: when the first round accepts nothing, doProcessIf continues with
//       FindPrototypeByCallableFromIndex<index + 1, PrototypeList, F> on the WHOLE prototype list: the search restarts at
//       the first prototype but numbers it index + 1, so the events of the NEXT prototype are read as if they had the
//       argument types of the first one: the predicate is shown an event of a prototype it is not callable with
//       (type confusion; if it accepts, the event is dispatched from a wrongly typed copy).
//  D4:  every slot is copied as QueuedItem<ArgsTuple of the predicate's prototype> BEFORE its callableIndex is tested.
// exit 1 = the predicate taking int was shown the std::string event.
#include <eventpp/hetereventqueue.h>
#include <cstdio>
#include <string>
int main() {
	using HQ = eventpp::HeterEventQueue<int, eventpp::HeterTuple<void (int), void (const std::string &)>>;
	HQ q;
	int ints = 0, strs = 0; std::string last;
	q.appendListener(1, [&](int) { ++ints; });
	q.appendListener(2, [&](const std::string & s) { ++strs; last = s; });
	q.enqueue(1, 5);
	q.enqueue(2, std::string("a string long enough to live on the heap, not in the small buffer"));
	int shown = 0;
	q.processIf([&](int v) { ++shown; std::printf("predicate(int) saw %d\n", v); return false; });
	std::printf("ints=%d strs=%d shown=%d\n", ints, strs, shown);
	q.process();
	std::printf("after process: ints=%d strs=%d last='%s'\n", ints, strs, last.c_str());
	if(shown != 1) { std::printf("FAIL: a predicate callable with the int prototype only was shown %d events (one of them is the string event)\n", shown); return 1; }
	return (ints == 1 && strs == 1) ? 0 : 2;
}
