// REPLAY-FOR: SRC_assign_move|SRD_assign_move
// Replay for the failed obligation SRC_assign_move.postcondition "the destination's old listener does not outlive all
// removers" (finding D2): window = the destination records the witness listener, the source does not.
#include <eventpp/callbacklist.h>
#include <eventpp/eventdispatcher.h>
#include <eventpp/utilities/scopedremover.h>
#include <cstdio>
int main()
{
	int failures = 0;
	{
		using CL = eventpp::CallbackList<void()>;
		CL list; int calls = 0;
		{
			eventpp::ScopedRemover<CL> r1(list), r2(list);
			r1.append([&]{ ++calls; });          // r1 is responsible for this listener
			r1 = std::move(r2);                   // move assignment into a NON-EMPTY remover
		}                                        // both removers are gone
		list();
		if(calls != 0) { std::printf("CallbackList: listener of the move-assigned-to remover is still attached after all removers are gone\n"); ++failures; }
	}
	{
		using ED = eventpp::EventDispatcher<int, void()>;
		ED dispatcher; int calls = 0;
		{
			eventpp::ScopedRemover<ED> r1(dispatcher), r2(dispatcher);
			r1.appendListener(3, [&]{ ++calls; });
			r1 = std::move(r2);
		}
		dispatcher.dispatch(3);
		if(calls != 0) { std::printf("EventDispatcher: listener of the move-assigned-to remover is still attached after all removers are gone\n"); ++failures; }
	}
	return failures ? 1 : 0;
}
