/* spec for unit "ordered" */
extern Slot g_S[2];                 /* two arbitrary witness slots */
extern Slot g_anon;
#define SRC_ASSERT(e) __CPROVER_assert((self != &g_S[0] && self != &g_S[1]) || (e), "assert() in the source (eventqueue_i.h) holds")
#define WL_GUARDED(l) ((void)0)
extern WList *g_rm_list; extern long g_rm_idx; extern WList *g_ins_list; extern long g_ins_idx;
static inline void wl_splice_all(WList *d, WIt pos, WList *s)
{
  __CPROVER_assert(pos.l == d && pos.i >= 0 && pos.i <= d->len && d != s, "std::list::splice: position belongs to the destination");
#define SA_K(k) if (s->w[k] >= 0) { __CPROVER_assert(d->w[k] < 0, "a slot is in one list only"); d->w[k] = pos.i + s->w[k]; } \
                else if (d->w[k] >= pos.i) d->w[k] += s->len;
  SA_K(0) SA_K(1)
  d->len += s->len; s->len = 0; s->w[0] = -1; s->w[1] = -1;
}
#define WLIST_SPLICE_ALL(d, pos, s) wl_splice_all(d, pos, s)
static inline void wl_splice_one(WList *d, WIt pos, WList *s, WIt it)
{
  __CPROVER_assert(pos.l == d && pos.i >= 0 && pos.i <= d->len, "std::list::splice: position belongs to the destination");
  __CPROVER_assert(it.l == s && it.i >= 0 && it.i < s->len && d != s, "std::list::splice: iterator is dereferenceable in the source");
  int moved = -1;
#define SO_K(k) if (s->w[k] == it.i) { moved = k; s->w[k] = -1; } else if (s->w[k] > it.i) s->w[k]--;
  SO_K(0) SO_K(1)
  s->len--;
  if (d->w[0] >= pos.i) d->w[0]++;
  if (d->w[1] >= pos.i) d->w[1]++;
  if (moved >= 0) { __CPROVER_assert(d->w[moved] < 0, "a slot is in one list only"); d->w[moved] = pos.i; }
  d->len++;
  g_rm_list = s; g_rm_idx = it.i; g_ins_list = d; g_ins_idx = pos.i;
}
#define WLIST_SPLICE_ONE(d, pos, s, it) wl_splice_one(d, pos, s, it)
static inline void wit_stable(WIt *v)
{
  if (v->l == g_rm_list) { if (v->i > g_rm_idx) v->i--; else if (v->i == g_rm_idx) { v->l = g_ins_list; v->i = g_ins_idx; } }
  else if (v->l == g_ins_list && v->i >= g_ins_idx) v->i++;
}
#define WIT_STABLE(v) wit_stable(v)
/* the rest of the list vocabulary (not used by the pinned code of this unit; present so that a rewritten splice that
 * looks at elements is still decided instead of aborting the extraction) */
#ifndef WLIST_EMPTY
#define WLIST_EMPTY(l) ((l)->len == 0)
#endif
#define WLIST_BEGIN(l) ((WIt){(l), 0})
#define WLIST_END(l) ((WIt){(l), (l)->len})
static inline _Bool wit_ne(WIt a, WIt b) { __CPROVER_assert(a.l == b.l, "std::list: iterators of the same list are compared"); return a.i != b.i; }
#define WIT_NE(a, b) wit_ne(a, b)
static inline Slot *wl_at(WList *l, long i)
{
  __CPROVER_assert(i >= 0 && i < l->len, "std::list: element access inside the list");
  if (l->w[0] == i) return &g_S[0];
  if (l->w[1] == i) return &g_S[1];
  Slot fresh; g_anon = fresh;
  return &g_anon;
}
#define WIT_DEREF(it) wl_at((it).l, (it).i)
#define WLIST_FRONT(l) wl_at(l, 0)
/* std::list::sort(cmp): TRUSTED: a stable sort that looks at the elements only through cmp.  On the two-witness
 * abstraction: afterwards W0 precedes W1 iff cmp(W0, W1), or neither compares less and W0 preceded W1 before;
 * absolute positions are otherwise arbitrary.  ghost g_sorted[l] is not kept: the postcondition of splice states
 * sortedness directly through the comparator results recorded here. */
extern _Bool g_lt01, g_lt10, g_sort_calls;
#define WLIST_SORT(l, callfn, clos) do { WList *__l = (l); g_sort_calls = 1; \
    if (__l->w[0] >= 0 && __l->w[1] >= 0) { \
      g_lt01 = callfn(clos, &g_S[0], &g_S[1]); g_lt10 = callfn(clos, &g_S[1], &g_S[0]); \
      _Bool __first0 = g_lt01 || (!g_lt10 && __l->w[0] < __l->w[1]); \
      long __p0 = nondet_long(), __p1 = nondet_long(); \
      __CPROVER_assume(__p0 >= 0 && __p0 < __l->len && __p1 >= 0 && __p1 < __l->len && __p0 != __p1 && ((__p0 < __p1) == __first0)); \
      __l->w[0] = __p0; __l->w[1] = __p1; \
    } else { \
      if (__l->w[0] >= 0) { long __p = nondet_long(); __CPROVER_assume(__p >= 0 && __p < __l->len); __l->w[0] = __p; } \
      if (__l->w[1] >= 0) { long __p = nondet_long(); __CPROVER_assume(__p >= 0 && __p < __l->len); __l->w[1] = __p; } \
    } } while (0)

/* the same with the comparator given as a function (address of a static member function) */
#define WLIST_SORT_FN(l, fn) do { WList *__l = (l); g_sort_calls = 1; \
    if (__l->w[0] >= 0 && __l->w[1] >= 0) { \
      g_lt01 = fn(&g_S[0], &g_S[1]); g_lt10 = fn(&g_S[1], &g_S[0]); \
      _Bool __first0 = g_lt01 || (!g_lt10 && __l->w[0] < __l->w[1]); \
      long __p0 = nondet_long(), __p1 = nondet_long(); \
      __CPROVER_assume(__p0 >= 0 && __p0 < __l->len && __p1 >= 0 && __p1 < __l->len && __p0 != __p1 && ((__p0 < __p1) == __first0)); \
      __l->w[0] = __p0; __l->w[1] = __p1; \
    } else { \
      if (__l->w[0] >= 0) { long __p = nondet_long(); __CPROVER_assume(__p >= 0 && __p < __l->len); __l->w[0] = __p; } \
      if (__l->w[1] >= 0) { long __p = nondet_long(); __CPROVER_assume(__p >= 0 && __p < __l->len); __l->w[1] = __p; } \
    } } while (0)
/* std::list::merge(other, cmp): TRUSTED: both lists must be sorted by cmp (checked on the witnesses); all elements of
 * `other` move into this list, which stays sorted; for equivalent elements those of THIS list precede those of
 * `other`, and the order inside each list is kept */
#define WLIST_MERGE_FN(d, s, fn) do { WList *__d = (d), *__s = (s); \
    __CPROVER_assert(__d != __s, "std::list::merge: different lists"); \
    __CPROVER_assert(!(__d->w[0] >= 0 && __d->w[1] >= 0) || !(__d->w[0] < __d->w[1] ? fn(&g_S[1], &g_S[0]) : fn(&g_S[0], &g_S[1])), "std::list::merge requires this list to be sorted by the comparator"); \
    __CPROVER_assert(!(__s->w[0] >= 0 && __s->w[1] >= 0) || !(__s->w[0] < __s->w[1] ? fn(&g_S[1], &g_S[0]) : fn(&g_S[0], &g_S[1])), "std::list::merge requires the other list to be sorted by the comparator"); \
    _Bool __in0 = __d->w[0] >= 0 || __s->w[0] >= 0, __in1 = __d->w[1] >= 0 || __s->w[1] >= 0; \
    _Bool __first0 = 0; \
    if (__in0 && __in1) { \
      if (__d->w[0] >= 0 && __d->w[1] >= 0) __first0 = __d->w[0] < __d->w[1]; \
      else if (__s->w[0] >= 0 && __s->w[1] >= 0) __first0 = __s->w[0] < __s->w[1]; \
      else if (__d->w[0] >= 0) __first0 = !fn(&g_S[1], &g_S[0]);      /* W0 is this list's: it stays first unless W1 is strictly less */ \
      else __first0 = fn(&g_S[0], &g_S[1]); \
    } \
    __d->len += __s->len; __s->len = 0; __s->w[0] = -1; __s->w[1] = -1; \
    long __p0 = nondet_long(), __p1 = nondet_long(); \
    __CPROVER_assume(!__in0 || (__p0 >= 0 && __p0 < __d->len)); __CPROVER_assume(!__in1 || (__p1 >= 0 && __p1 < __d->len)); \
    __CPROVER_assume(!(__in0 && __in1) || (__p0 != __p1 && ((__p0 < __p1) == __first0))); \
    __d->w[0] = __in0 ? __p0 : -1; __d->w[1] = __in1 ? __p1 : -1; \
  } while (0)
#define WLIST_BACK(l) wl_at(l, (l)->len - 1)
/* std::lower_bound / upper_bound over a list range partitioned with respect to the value (checked on the witnesses):
 * the position p with  element < value  exactly for the elements before p  (upper_bound: !(value < element)) */
static inline WIt wl_bound(WIt first, WIt last, Slot *val, _Bool lt0, _Bool lt1)
{
  __CPROVER_assert(first.l == last.l && first.i >= 0 && first.i <= last.i && last.i <= first.l->len, "std::lower_bound / upper_bound: a valid range of one list");
  WList *l = first.l;
  long p = nondet_long();
  __CPROVER_assume(p >= first.i && p <= last.i);
  if (l->w[0] >= first.i && l->w[0] < last.i && val != &g_S[0]) __CPROVER_assume((l->w[0] < p) == lt0);
  if (l->w[1] >= first.i && l->w[1] < last.i && val != &g_S[1]) __CPROVER_assume((l->w[1] < p) == lt1);
  return (WIt){l, p};
}
#define WLIST_LOWER_BOUND_FN(first, last, val, fn) wl_bound(first, last, val, fn(&g_S[0], val), fn(&g_S[1], val))
#define WLIST_UPPER_BOUND_FN(first, last, val, fn) wl_bound(first, last, val, !fn(val, &g_S[0]), !fn(val, &g_S[1]))

#define WL_SMALL(l) ((l).len < (1L << 38))
#define WL_OK_M(l) ((l).len >= 0 && (l).len < (1L << 40) && (l).w[0] >= -1 && (l).w[0] < (l).len && (l).w[1] >= -1 && (l).w[1] < (l).len && ((l).w[0] < 0 || (l).w[0] != (l).w[1]))
/* user comparator: environment; deterministic in the two events (a function of their keys here) and, by the property's
 * own premise, a strict weak order */
#define CONTRACT_UserCompare_call \
  __CPROVER_assigns() \
  __CPROVER_ensures(__CPROVER_return_value == (a0->event / 4 < a1->event / 4))      /* some strict weak order with non-trivial equivalence classes */
#define EMPTY_S(p) ((p)->dtor == NULL)
#define USER_LT(a, b) ((a)->buffer.event / 4 < (b)->buffer.event / 4)
#define DEF_LT(a, b) ((a)->buffer.event < (b)->buffer.event)
/* comparator wrapper (orderedqueuelist.h:60): empty (recycled) slots sort first, occupied ones by the user comparator */
#define WRAP_CONTRACT(LT) \
  __CPROVER_requires(__CPROVER_is_fresh(__c, sizeof(*__c)) && __CPROVER_is_fresh(a, sizeof(Slot)) && (__CPROVER_pointer_equals(b, a) || __CPROVER_is_fresh(b, sizeof(Slot)))) \
  __CPROVER_assigns() \
  __CPROVER_ensures(__CPROVER_return_value == (EMPTY_S(a) ? !EMPTY_S(b) : (!EMPTY_S(b) && LT(a, b))))
#define CONTRACT_OQL_doSort__lambda0_call WRAP_CONTRACT(USER_LT)
#define CONTRACT_OQLD_doSort__lambda0_call WRAP_CONTRACT(DEF_LT)
/* the order the wrapper induces on two slots */
#define W_LT(LT, a, b) (EMPTY_S(a) ? !EMPTY_S(b) : (!EMPTY_S(b) && LT(a, b)))
/* splice (both overloads): the elements move as in std::list::splice AND the list is sorted afterwards, stably:
 * for the two witnesses, if both are in this list afterwards then the one that compares less comes first, and if
 * neither compares less they are in the relative order the plain splice left them in */
#define SORTED_W(LT) ((self->base.w[0] >= 0 && self->base.w[1] >= 0) ==> \
    ((W_LT(LT, &g_S[0], &g_S[1]) ==> self->base.w[0] < self->base.w[1]) && (W_LT(LT, &g_S[1], &g_S[0]) ==> self->base.w[1] < self->base.w[0])))
/* witness a came from `other`, witness b was in this list: the plain splice puts a in front of b exactly when b is at or
 * behind pos; a stable sort keeps that order when neither compares less */
#define XSTABLE(LT, a, b) ((__CPROVER_old(other->base.w[a]) >= 0 && __CPROVER_old(self->base.w[b]) >= 0 && !W_LT(LT, &g_S[0], &g_S[1]) && !W_LT(LT, &g_S[1], &g_S[0])) ==> \
    ((self->base.w[a] < self->base.w[b]) == (__CPROVER_old(self->base.w[b]) >= pos.i)))
#define XSTABLE1(LT, a, b) ((__CPROVER_old(other->base.w[a]) == it.i && __CPROVER_old(self->base.w[b]) >= 0 && !W_LT(LT, &g_S[0], &g_S[1]) && !W_LT(LT, &g_S[1], &g_S[0])) ==> \
    ((self->base.w[a] < self->base.w[b]) == (__CPROVER_old(self->base.w[b]) >= pos.i)))
#define SPLICE_ALL_CONTRACT(LT) \
  __CPROVER_requires(__CPROVER_is_fresh(self, sizeof(*self)) && __CPROVER_is_fresh(other, sizeof(*other))) \
  __CPROVER_requires(WL_OK_M(self->base) && WL_OK_M(other->base) && WL_SMALL(self->base) && WL_SMALL(other->base) && pos.l == &self->base && pos.i >= 0 && pos.i <= self->base.len) \
  __CPROVER_requires((self->base.w[0] < 0 || other->base.w[0] < 0) && (self->base.w[1] < 0 || other->base.w[1] < 0)) \
  __CPROVER_requires(g_b0 == (self->base.w[0] >= 0 && self->base.w[1] >= 0 && self->base.w[0] < self->base.w[1]) && g_b1 == (self->base.w[0] >= 0 && self->base.w[1] >= 0 && self->base.w[1] < self->base.w[0])) \
  __CPROVER_assigns(self->base.len, self->base.w, other->base.len, other->base.w, g_lt01, g_lt10, g_sort_calls, g_anon) \
  __CPROVER_ensures(WL_OK_M(self->base) && self->base.len == __CPROVER_old(self->base.len) + __CPROVER_old(other->base.len) && other->base.len == 0) \
  __CPROVER_ensures((self->base.w[0] >= 0) == (__CPROVER_old(self->base.w[0]) >= 0 || __CPROVER_old(other->base.w[0]) >= 0)) \
  __CPROVER_ensures((self->base.w[1] >= 0) == (__CPROVER_old(self->base.w[1]) >= 0 || __CPROVER_old(other->base.w[1]) >= 0)) \
  __CPROVER_ensures(SORTED_W(LT)) \
  __CPROVER_ensures(XSTABLE(LT, 0, 1) && XSTABLE(LT, 1, 0))      /* stability across the two lists: equal events keep the order the plain splice gives them */ \
  __CPROVER_ensures(((g_b0 || g_b1) && !W_LT(LT, &g_S[0], &g_S[1]) && !W_LT(LT, &g_S[1], &g_S[0])) ==> ((self->base.w[0] < self->base.w[1]) == g_b0))   /* stable */
#define CONTRACT_OQL_splice SPLICE_ALL_CONTRACT(USER_LT)
#define CONTRACT_OQLD_splice SPLICE_ALL_CONTRACT(DEF_LT)
#define CONTRACT_OQL_splice_2 \
  __CPROVER_requires(__CPROVER_is_fresh(self, sizeof(*self)) && __CPROVER_is_fresh(other, sizeof(*other))) \
  __CPROVER_requires(WL_OK_M(self->base) && WL_OK_M(other->base) && WL_SMALL(self->base) && WL_SMALL(other->base) && pos.l == &self->base && pos.i >= 0 && pos.i <= self->base.len && it.l == &other->base && it.i >= 0 && it.i < other->base.len) \
  __CPROVER_requires((self->base.w[0] < 0 || other->base.w[0] < 0) && (self->base.w[1] < 0 || other->base.w[1] < 0)) \
  __CPROVER_requires(g_b0 == (self->base.w[0] >= 0 && self->base.w[1] >= 0 && self->base.w[0] < self->base.w[1]) && g_b1 == (self->base.w[0] >= 0 && self->base.w[1] >= 0 && self->base.w[1] < self->base.w[0])) \
  __CPROVER_assigns(self->base.len, self->base.w, other->base.len, other->base.w, g_lt01, g_lt10, g_sort_calls, g_anon, g_rm_list, g_rm_idx, g_ins_list, g_ins_idx) \
  __CPROVER_ensures(WL_OK_M(self->base) && self->base.len == __CPROVER_old(self->base.len) + 1 && other->base.len == __CPROVER_old(other->base.len) - 1) \
  __CPROVER_ensures((self->base.w[0] >= 0) == (__CPROVER_old(self->base.w[0]) >= 0 || __CPROVER_old(other->base.w[0]) == it.i)) \
  __CPROVER_ensures((self->base.w[1] >= 0) == (__CPROVER_old(self->base.w[1]) >= 0 || __CPROVER_old(other->base.w[1]) == it.i)) \
  __CPROVER_ensures(SORTED_W(USER_LT)) \
  __CPROVER_ensures(XSTABLE1(USER_LT, 0, 1) && XSTABLE1(USER_LT, 1, 0)) \
  __CPROVER_ensures(((g_b0 || g_b1) && !W_LT(USER_LT, &g_S[0], &g_S[1]) && !W_LT(USER_LT, &g_S[1], &g_S[0])) ==> ((self->base.w[0] < self->base.w[1]) == g_b0))
