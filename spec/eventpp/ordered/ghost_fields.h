/* unit "ordered": OrderedQueueList over the queue's slot type */
typedef struct VArg { int id; } VArg;
typedef struct QEvent { int event; VArg arg; } QEvent;
typedef struct UserCompare { int id; } UserCompare;
typedef const void *DtorTag;
struct Mutex;
typedef struct WList { long len; long w[2]; struct Mutex *guard; } WList;
typedef struct WIt { WList *l; long i; } WIt;
int nondet_int(void); long nondet_long(void); _Bool nondet_bool(void);
#define UserCompare_DEFAULT() ((UserCompare){0})
#define UserCompare_COPY(p) (*(p))
#define UserCompare_MOVE(p) (*(p))
#define DefaultCompare_DEFAULT() ((DefaultCompare){0})
#define DefaultCompare_COPY(p) (*(p))
#define DefaultCompare_MOVE(p) (*(p))
#define GHOST_FIELDS_DefaultCompare int unused;
