/* unit "removers": CounterRemover / ConditionalRemover; targets and user functors are environment */
typedef struct Node Node;
typedef struct Handle { Node *p; } Handle;
typedef struct VArg { int id; } VArg;
typedef struct CLT { int opaque; } CLT;
typedef struct EDT { int opaque; } EDT;
typedef struct UserL { int id; } UserL;
typedef struct UserCond { int id; } UserCond;
typedef struct UserCond0 { int id; } UserCond0;
int nondet_int(void);
#define VArg_COPY(p) (*(p))
#define VArg_MOVE(p) ({ VArg __t = *(p); (p)->id = nondet_int(); __t; })
#define UserL_COPY(p) (*(p))
#define UserCond_COPY(p) (*(p))
#define UserCond0_COPY(p) (*(p))
#define UserL_MOVE(p) (*(p))
#define UserCond_MOVE(p) (*(p))
#define UserCond0_MOVE(p) (*(p))
extern void *g_wrapped_data;       /* ghost: the Data object held by the wrapper most recently converted to a Callback */
#define CALLBACK_FROM_FUNCTOR(T, p) (g_wrapped_data = (void *)(p)->data, (Callback){1})
#define MAKE_SHARED_VALUE(T, alloc, ...) ({ T *__n = (alloc); *__n = (__VA_ARGS__); __n; })
