/* spec for unit "removers" */
extern int g_arg;                  /* the argument value of the trigger being delivered */
extern int g_l_calls, g_rm_calls, g_c_calls;          /* calls of the wrapped listener / target remove / condition during this trigger */
extern unsigned long g_seq, g_l_seq, g_rm_seq;        /* order of those calls */
extern _Bool g_cond;               /* the (arbitrary, fixed) answer of the condition for this trigger */
extern void *g_cur_cond;           /* the condition object stored in the wrapper's own data (a stateful condition must be evaluated in place, not on a copy) */
extern void *g_cur_target; extern Node *g_cur_handle; extern int g_cur_event; extern void *g_cur_data;
extern Node *g_new_handle;         /* handle the target returns for the registration */
#define FRESHALLOC(T) __CPROVER_assigns() __CPROVER_ensures(__CPROVER_is_fresh(__CPROVER_return_value, sizeof(T)))
#define CONTRACT_CRCData_alloc FRESHALLOC(CRCData)
#define CONTRACT_CRDData_alloc FRESHALLOC(CRDData)
#define CONTRACT_NRCData_alloc FRESHALLOC(NRCData)
#define CONTRACT_NRCData0_alloc FRESHALLOC(NRCData0)
#define CONTRACT_NRDData_alloc FRESHALLOC(NRDData)
#define CONTRACT_NRDData0_alloc FRESHALLOC(NRDData0)
/* wrapped listener: receives the trigger's argument value */
#define CONTRACT_UserL_call \
  __CPROVER_requires(a0->id == g_arg)                                  /* the dispatched argument values */ \
  __CPROVER_assigns(g_l_calls, g_seq, g_l_seq) \
  __CPROVER_ensures(g_l_calls == __CPROVER_old(g_l_calls) + 1 && g_seq == __CPROVER_old(g_seq) + 1 && g_l_seq == g_seq)
/* condition: evaluated with the trigger's arguments (if it takes them) */
#define CONTRACT_UserCond_call \
  __CPROVER_requires(a0->id == g_arg && (void *)f == g_cur_cond) \
  __CPROVER_assigns(g_c_calls) \
  __CPROVER_ensures(g_c_calls == __CPROVER_old(g_c_calls) + 1 && __CPROVER_return_value == g_cond)
#define CONTRACT_UserCond0_call \
  __CPROVER_requires((void *)f == g_cur_cond) \
  __CPROVER_assigns(g_c_calls) \
  __CPROVER_ensures(g_c_calls == __CPROVER_old(g_c_calls) + 1 && __CPROVER_return_value == g_cond)
/* target remove: must be asked to remove exactly this wrapper's own registration: its target, its handle, and (dispatcher)
 * the event stored INSIDE the wrapper's own data (a key that lives in the caller's object could have changed) */
#define CONTRACT_CLT_remove \
  __CPROVER_requires((void *)self == g_cur_target && a0->p == g_cur_handle) \
  __CPROVER_assigns(g_rm_calls, g_seq, g_rm_seq) \
  __CPROVER_ensures(g_rm_calls == __CPROVER_old(g_rm_calls) + 1 && g_seq == __CPROVER_old(g_seq) + 1 && g_rm_seq == g_seq)
#define CONTRACT_EDT_removeListener \
  __CPROVER_requires((void *)self == g_cur_target && a1.p == g_cur_handle && *a0 == g_cur_event && __CPROVER_same_object(a0, g_cur_data)) \
  __CPROVER_assigns(g_rm_calls, g_seq, g_rm_seq) \
  __CPROVER_ensures(g_rm_calls == __CPROVER_old(g_rm_calls) + 1 && g_seq == __CPROVER_old(g_seq) + 1 && g_rm_seq == g_seq)
#define GSMALL (g_l_calls >= 0 && g_l_calls < 1000 && g_rm_calls >= 0 && g_rm_calls < 1000 && g_c_calls >= 0 && g_c_calls < 1000 && g_seq < 1000000)

/* ================================================================== CounterRemover wrapper (counterremover.h:48 / 128), one trigger
 * statement: invoked on exactly the first max(n, 1) triggers.  Inductive step: with t = the count before this trigger,
 * the listener runs exactly once with the trigger's arguments; if t <= 1 the wrapper detaches itself (exactly its own
 * registration, BEFORE the listener runs, so a re-trigger from inside the listener does not reach it again) and
 * otherwise the count becomes t - 1 >= 1 and nothing is removed.  By induction a wrapper registered with n is invoked
 * max(n, 1) times.  No signed overflow for any n (checked). */
#define CR_CONTRACT(DATA, TGT, BIND) \
  __CPROVER_requires(__CPROVER_is_fresh(self, sizeof(*self)) && __CPROVER_is_fresh(self->data, sizeof(DATA)) && __CPROVER_is_fresh(self->data->TGT, sizeof(*self->data->TGT)) && __CPROVER_is_fresh(args, sizeof(VArg))) \
  __CPROVER_requires(GSMALL && args->id == g_arg && g_cur_target == (void *)self->data->TGT && g_cur_handle == self->data->handle.p && g_cur_data == (void *)self->data && (BIND)) \
  __CPROVER_assigns(self->data->triggerCount, args->id, g_l_calls, g_rm_calls, g_seq, g_l_seq, g_rm_seq) \
  __CPROVER_ensures(g_l_calls == __CPROVER_old(g_l_calls) + 1) \
  __CPROVER_ensures(__CPROVER_old(self->data->triggerCount) <= 1 ? (g_rm_calls == __CPROVER_old(g_rm_calls) + 1 && g_rm_seq < g_l_seq) \
                                                                  : (g_rm_calls == __CPROVER_old(g_rm_calls) && self->data->triggerCount == __CPROVER_old(self->data->triggerCount) - 1))
#define CONTRACT_CRCW_call CR_CONTRACT(CRCData, callbackList, 1)
#define CONTRACT_CRDW_call CR_CONTRACT(CRDData, dispatcher, g_cur_event == self->data->event)

/* ================================================================== ConditionalRemover wrapper (conditionalremover.h:42-62 / 130-150), one trigger
 * the condition is evaluated exactly once, with the trigger's arguments if it takes them; the listener runs exactly
 * once in both cases; the wrapper detaches itself (before the listener runs) exactly when the condition held */
#define NR_CONTRACT(DATA, TGT, BIND) \
  __CPROVER_requires(__CPROVER_is_fresh(self, sizeof(*self)) && __CPROVER_is_fresh(self->data, sizeof(DATA)) && __CPROVER_is_fresh(self->data->TGT, sizeof(*self->data->TGT)) && __CPROVER_is_fresh(args, sizeof(VArg))) \
  __CPROVER_requires(GSMALL && args->id == g_arg && g_cur_target == (void *)self->data->TGT && g_cur_handle == self->data->handle.p && g_cur_data == (void *)self->data && g_cur_cond == (void *)&self->data->shouldRemove && (BIND)) \
  __CPROVER_assigns(args->id, g_l_calls, g_rm_calls, g_c_calls, g_seq, g_l_seq, g_rm_seq) \
  __CPROVER_ensures(g_l_calls == __CPROVER_old(g_l_calls) + 1 && g_c_calls == __CPROVER_old(g_c_calls) + 1) \
  __CPROVER_ensures(g_cond ? (g_rm_calls == __CPROVER_old(g_rm_calls) + 1 && g_rm_seq < g_l_seq) : g_rm_calls == __CPROVER_old(g_rm_calls))
#define CONTRACT_NRCW_call NR_CONTRACT(NRCData, callbackList, 1)
#define CONTRACT_NRCW0_call NR_CONTRACT(NRCData0, callbackList, 1)
#define CONTRACT_NRDW_call NR_CONTRACT(NRDData, dispatcher, g_cur_event == self->data->event)
#define CONTRACT_NRDW0_call NR_CONTRACT(NRDData0, dispatcher, g_cur_event == self->data->event)

/* ================================================================== registration (append / prepend / insert ...): the wrapper's data holds the count /
 * condition, its own COPY of the event key and listener, the target, and the handle the target returned; the helper
 * object itself is not referenced by the data (it may be destroyed afterwards) */
#define ADDSTUB __CPROVER_requires(g_wrapped_data != NULL) __CPROVER_assigns() __CPROVER_ensures(__CPROVER_return_value.p == g_new_handle && g_new_handle != NULL)
#define CONTRACT_CLT_append ADDSTUB
#define CONTRACT_CLT_prepend ADDSTUB
#define CONTRACT_CLT_insert ADDSTUB
#define CONTRACT_EDT_appendListener ADDSTUB
#define CONTRACT_EDT_prependListener ADDSTUB
#define CONTRACT_EDT_insertListener ADDSTUB
#define WD(T) ((T *)g_wrapped_data)
#define CRC_ADD(EXTRA) \
  __CPROVER_requires(__CPROVER_is_fresh(self, sizeof(CRC)) && __CPROVER_is_fresh(self->callbackList, sizeof(CLT)) && __CPROVER_is_fresh(listener, sizeof(UserL)) EXTRA) \
  __CPROVER_assigns(g_wrapped_data) \
  __CPROVER_ensures(__CPROVER_return_value.p == g_new_handle && __CPROVER_is_fresh(g_wrapped_data, sizeof(CRCData))) \
  __CPROVER_ensures(WD(CRCData)->handle.p == g_new_handle && WD(CRCData)->triggerCount == triggerCount && WD(CRCData)->callbackList == self->callbackList && WD(CRCData)->listener.id == listener->id)
#define CONTRACT_CRC_append__UserL CRC_ADD()
#define CONTRACT_CRC_prepend__UserL CRC_ADD()
#define CONTRACT_CRC_insert__UserL CRC_ADD(&& __CPROVER_is_fresh(before, sizeof(Handle)))
#define CRD_ADD(EXTRA) \
  __CPROVER_requires(__CPROVER_is_fresh(self, sizeof(CRD)) && __CPROVER_is_fresh(self->dispatcher, sizeof(EDT)) && __CPROVER_is_fresh(listener, sizeof(UserL)) && __CPROVER_is_fresh(event, sizeof(int)) EXTRA) \
  __CPROVER_assigns(g_wrapped_data) \
  __CPROVER_ensures(__CPROVER_return_value.p == g_new_handle && __CPROVER_is_fresh(g_wrapped_data, sizeof(CRDData))) \
  __CPROVER_ensures(WD(CRDData)->handle.p == g_new_handle && WD(CRDData)->triggerCount == triggerCount && WD(CRDData)->dispatcher == self->dispatcher && WD(CRDData)->listener.id == listener->id && WD(CRDData)->event == *event)
#define CONTRACT_CRD_appendListener__UserL CRD_ADD()
#define CONTRACT_CRD_prependListener__UserL CRD_ADD()
#define CONTRACT_CRD_insertListener__UserL CRD_ADD(&& __CPROVER_is_fresh(before, sizeof(Handle)))
