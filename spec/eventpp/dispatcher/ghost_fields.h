/* unit "dispatcher": EventDispatcherBase + MixinFilter.  The callback lists are environment here (unit callbacklist
 * proves their contracts); the event -> list map is a TRUSTED witness abstraction of std::map / std::unordered_map. */
typedef struct Node Node;                               /* list node: identity only */
typedef struct Handle { Node *p; } Handle;              /* CallbackList::Handle (weak_ptr<Node>) */
typedef struct VArg { int id; } VArg;                   /* opaque argument value: identity only */
typedef struct CLT { int opaque; } CLT;                 /* CallbackList<...>: environment */
typedef struct UserEach { int id; } UserEach;
typedef struct UserEachIf { int id; } UserEachIf;
/* witness abstraction of the map: ONE arbitrary witness key g_K (its entry is `w`, present iff `has`); every other key's
 * entry is anonymous (g_anonP, unconstrained at each access).  guard (ghost): the mutex protecting the map. */
typedef struct WPair { int first; CLT second; } WPair;
struct Mutex;
typedef struct WMap { _Bool has; WPair w; struct Mutex *guard; } WMap;
typedef struct WMIt { WMap *m; int pos; } WMIt;         /* pos: 0 witness entry, 1 an anonymous entry, 2 end() */
_Bool nondet_bool(void); int nondet_int(void);
#define VArg_COPY(p) (*(p))
#define VArg_MOVE(p) ({ VArg __t = *(p); (p)->id = nondet_int(); __t; })          /* moved-from: unspecified value */
#define BASE_TO_DERIVED(T, field, p) ((T *)((char *)(p) - __builtin_offsetof(T, field)))
