/* spec for unit "dispatcher" (C04, C12, C10; lock discipline for C02 / C03) */
extern int g_K;                    /* the witness event key (arbitrary) */
extern WPair g_anonP;              /* stand-in for the entry of any other key */
/* ------------------------------------------------------------------ log of the calls made on callback lists (stubs) */
extern int g_n;                    /* number of calls made on callback lists */
extern int g_op;                   /* the last one: 1 append 2 prepend 3 insert 4 remove 5 empty 6 ownsHandle 7 forEach 8 forEachIf 9 operator() */
extern CLT *g_cl;                  /* the list it was made on */
extern int g_cbid;                 /* id of the callback / of the argument value passed */
extern Node *g_hp;                 /* handle passed */
extern void *g_fn;                 /* functor passed */
extern Node *g_rh; extern _Bool g_rb;     /* what it returned */
extern unsigned long g_seq, g_call_seq, g_mix_seq;
/* mixin chain (filters) */
extern int g_mix_n; extern _Bool g_mix_ret; extern int g_mix_postid; extern void *g_mix_self;
/* directDispatch boundary */
extern int g_dd_n, g_dd_key, g_dd_arg;
#define LOG g_n, g_op, g_cl, g_cbid, g_hp, g_fn, g_rh, g_rb, g_seq, g_call_seq

/* ------------------------------------------------------------------ TRUSTED map abstraction */
#define KIND_OF_listenerMutex 3
#undef MUTEX_MEMBER_INIT
#define MUTEX_MEMBER_INIT(m, s, name) do { (m)->depth = 0; (m)->kind = KIND_OF_##name; } while (0)
#define GUARD_OF_eventCallbackListMap(s) (&(s)->listenerMutex)
#define WMAP_MEMBER_INIT(m, s, name) do { (m)->has = 0; (m)->guard = GUARD_OF_##name(s); } while (0)
/* lock discipline (C03): lookups and insertions happen with the dispatcher's mutex held */
#define WM_GUARDED(m) __CPROVER_assert((m)->guard == NULL || (m)->guard->depth == 1, "lock discipline: the event map is read and changed only with listenerMutex held")
void CLT_ctor(CLT *self);
static inline CLT *wmap_index(WMap *m, int key)
{
  WM_GUARDED(m);
  if (key == g_K) {
    if (!m->has) { m->has = 1; m->w.first = key; CLT fresh; m->w.second = fresh; }    /* a new, empty list */
    return &m->w.second;
  }
  WPair fresh; g_anonP = fresh; g_anonP.first = key;
  return &g_anonP.second;
}
#define WMAP_INDEX(m, key) wmap_index(m, key)
static inline WMIt wmap_find(WMap *m, int key)
{
  WM_GUARDED(m);
  if (key == g_K) return (WMIt){m, m->has ? 0 : 2};
  if (nondet_bool()) { WPair fresh; g_anonP = fresh; g_anonP.first = key; return (WMIt){m, 1}; }
  return (WMIt){m, 2};
}
#define WMAP_FIND(m, key) wmap_find(m, key)
#define WMAP_END(m) ((WMIt){(m), 2})
static inline _Bool wmit_ne(WMIt a, WMIt b) { __CPROVER_assert(a.m == b.m, "map iterators of the same map are compared"); return a.pos != b.pos; }
#define WMIT_NE(a, b) wmit_ne(a, b)
static inline WPair *wmit_deref(WMIt it) { __CPROVER_assert(it.pos == 0 || it.pos == 1, "map iterator is dereferenceable"); return it.pos == 0 ? &it.m->w : &g_anonP; }
#define WMIT_DEREF(it) wmit_deref(it)
/* whole-map copy / move / swap: the witness entry goes with the map (its list is copied: CallbackList's copy, C10) */
/* (a copied map holds COPIES of the callback lists: new list objects - ghost identity CLT.opaque - whose handles are
 * not the originals'; std::map's own copy assignment does nothing on self-assignment) */
#define WMAP_INIT_LOCAL(m) do { (m)->has = 0; (m)->guard = NULL; } while (0)
#define WMAP_CTOR_COPY(d, s) do { (d)->has = (s)->has; (d)->w = (s)->w; (d)->w.second.opaque = nondet_int(); } while (0)
#define WMAP_CTOR_MOVE(d, s) do { (d)->has = (s)->has; (d)->w = (s)->w; (s)->has = 0; } while (0)
#define WMAP_ASSIGN_COPY(d, s) do { if ((d) != (s)) { _Bool __h = (s)->has; WPair __w = (s)->w; (d)->has = __h; (d)->w = __w; (d)->w.second.opaque = nondet_int(); } } while (0)
#define WMAP_ASSIGN_MOVE(d, s) do { _Bool __h = (s)->has; WPair __w = (s)->w; (s)->has = nondet_bool() && (d) == (s) ? __h : 0; (d)->has = __h; (d)->w = __w; } while (0)
#define WMAP_SWAP(a, b) do { _Bool __h = (a)->has; WPair __w = (a)->w; (a)->has = (b)->has; (a)->w = (b)->w; (b)->has = __h; (b)->w = __w; } while (0)
#define WMAP_DTOR(m) ((void)0)
/* erase: the entry and its callback list are destroyed */
static inline void wmap_erase_it(WMap *m, WMIt it) { WM_GUARDED(m); __CPROVER_assert(it.m == m && it.pos != 2, "map::erase of a dereferenceable iterator"); if (it.pos == 0) m->has = 0; }
static inline long wmap_erase_key(WMap *m, int key) { WM_GUARDED(m); if (key == g_K) { _Bool h = m->has; m->has = 0; return h; } return nondet_bool(); }
#define WMAP_ERASE_IT(m, it) wmap_erase_it(m, it)
#define WMAP_ERASE_KEY(m, key) wmap_erase_key(m, key)
#define WMAP_EMPTY(m) (!(m)->has && nondet_bool())

extern struct Mutex *g_dmutex;     /* the mutex of the dispatcher under proof (ghost) */
/* ------------------------------------------------------------------ environment: the callback lists (contracts of unit callbacklist, as a call log) */
/* (a havocked _Bool may hold any bit pattern: the stubs pin their ghost verdicts to 0 / 1) */
#define B01(b) ((b) == 0 || (b) == 1)
#define CL_LOG(OP) B01(g_rb) && g_n == __CPROVER_old(g_n) + 1 && g_op == (OP) && g_cl == self && g_seq == __CPROVER_old(g_seq) + 1
/* a local COPY of a callback list is another list (a snapshot): what is done on it is logged on IT (g_cl == the copy),
 * so an operation the contracts expect on the member list is not found there */
#define CONTRACT_CLT_ctor_copy __CPROVER_assigns(*self, LOG) __CPROVER_ensures(CL_LOG(10) && g_hp == (Node *)0 && g_fn == (void *)other)
#define CONTRACT_CLT_ctor_move __CPROVER_assigns(*self, LOG) __CPROVER_ensures(CL_LOG(11) && g_fn == (void *)other)
#define CONTRACT_CLT_dtor __CPROVER_requires(1) __CPROVER_assigns() __CPROVER_ensures(1)
#define CONTRACT_CLT_append  __CPROVER_assigns(LOG) __CPROVER_ensures(CL_LOG(1) && g_cbid == a0->id && __CPROVER_return_value.p == g_rh)
#define CONTRACT_CLT_prepend __CPROVER_assigns(LOG) __CPROVER_ensures(CL_LOG(2) && g_cbid == a0->id && __CPROVER_return_value.p == g_rh)
#define CONTRACT_CLT_insert  __CPROVER_assigns(LOG) __CPROVER_ensures(CL_LOG(3) && g_cbid == a0->id && g_hp == a1->p && __CPROVER_return_value.p == g_rh)
/* remove releases the removed callback (C08): the user's functor destructor runs inside it and may use the dispatcher
 * again (e.g. it owns a ScopedRemover), so remove is called with no dispatcher mutex held, like the invoking calls below */
#define CONTRACT_CLT_remove  __CPROVER_requires(g_dmutex->depth == 0) __CPROVER_assigns(LOG) __CPROVER_ensures(CL_LOG(4) && g_hp == a0->p && __CPROVER_return_value == g_rb)
#define CONTRACT_CLT_empty   __CPROVER_assigns(LOG) __CPROVER_ensures(CL_LOG(5) && __CPROVER_return_value == g_rb)
#define CONTRACT_CLT_ownsHandle __CPROVER_assigns(LOG) __CPROVER_ensures(CL_LOG(6) && g_hp == a0->p && __CPROVER_return_value == g_rb)
/* these run user code (callbacks, visitors): they must be called with no dispatcher mutex held (re-entrancy, C02) */
#define NO_DLOCK (g_dmutex->depth == 0)
#define CONTRACT_CLT_forEach   __CPROVER_requires(NO_DLOCK) __CPROVER_assigns(LOG) __CPROVER_ensures(CL_LOG(7) && g_fn == (void *)a0)
#define CONTRACT_CLT_forEachIf __CPROVER_requires(NO_DLOCK) __CPROVER_assigns(LOG) __CPROVER_ensures(CL_LOG(8) && g_fn == (void *)a0 && __CPROVER_return_value == g_rb)
#define CONTRACT_CLT_call      __CPROVER_requires(NO_DLOCK) __CPROVER_assigns(LOG) __CPROVER_ensures(B01(g_rb) && g_n == __CPROVER_old(g_n) + 1 && g_op == 9 && g_cl == f && g_seq == __CPROVER_old(g_seq) + 1 && g_cbid == a0->id && g_call_seq == g_seq)
/* user getEvent policy: some fixed function of the argument VALUE */
#define CONTRACT_Pol_getEvent __CPROVER_assigns() __CPROVER_ensures(__CPROVER_return_value == (a0.id ^ 0x2a))
#define CONTRACT_Pol_getEvent2 __CPROVER_assigns() __CPROVER_ensures(__CPROVER_return_value == (*a0 ^ a1.id ^ 0x55))

/* ------------------------------------------------------------------ window */
#define ED_FRESH(s) (__CPROVER_is_fresh(s, sizeof(*(s))) && __CPROVER_pointer_equals((s)->eventCallbackListMap.guard, &(s)->listenerMutex) && __CPROVER_pointer_equals(g_dmutex, &(s)->listenerMutex))
#define ED_OK(s) ((s)->listenerMutex.depth == 0 && g_n >= 0 && g_n < 1000000 && g_seq < (1UL << 60) && (!(s)->eventCallbackListMap.has || (s)->eventCallbackListMap.w.first == g_K))
#define ED_PRE(s) (ED_OK(s) && g_n < 1000 && g_seq < (1UL << 50))
#define WLIST(s) (&(s)->eventCallbackListMap.w.second)
#define HAS(s) ((s)->eventCallbackListMap.has)
#define ED_FRAME(s) (s)->eventCallbackListMap.has, (s)->eventCallbackListMap.w, (s)->listenerMutex.depth, g_anonP, LOG

/* ------------------------------------------------------------------ listener management = the callback-list operation on the event's list
 * (created on demand by append / prepend / insert), made with listenerMutex held; no other entry is touched */
#define ADD_POST(OP) \
  __CPROVER_ensures(ED_OK(self) && CL_LOG_ED(OP) && g_cbid == callback->id && __CPROVER_return_value.p == g_rh) \
  __CPROVER_ensures(*event == g_K ? (HAS(self) && self->eventCallbackListMap.w.first == g_K && g_cl == WLIST(self)) : (HAS(self) == __CPROVER_old(HAS(self)) && g_cl != WLIST(self)))
#define CL_LOG_ED(OP) (g_n == __CPROVER_old(g_n) + 1 && g_op == (OP))
#define CONTRACT_ED_appendListener \
  __CPROVER_requires(ED_FRESH(self) && __CPROVER_is_fresh(event, sizeof(int)) && __CPROVER_is_fresh(callback, sizeof(Callback)) && ED_PRE(self)) \
  __CPROVER_assigns(ED_FRAME(self)) ADD_POST(1)
#define CONTRACT_ED_prependListener \
  __CPROVER_requires(ED_FRESH(self) && __CPROVER_is_fresh(event, sizeof(int)) && __CPROVER_is_fresh(callback, sizeof(Callback)) && ED_PRE(self)) \
  __CPROVER_assigns(ED_FRAME(self)) ADD_POST(2)
#define CONTRACT_ED_insertListener \
  __CPROVER_requires(ED_FRESH(self) && __CPROVER_is_fresh(event, sizeof(int)) && __CPROVER_is_fresh(callback, sizeof(Callback)) && __CPROVER_is_fresh(before, sizeof(Handle)) && ED_PRE(self)) \
  __CPROVER_assigns(ED_FRAME(self)) ADD_POST(3) \
  __CPROVER_ensures(g_hp == before->p)
/* queries and removal: the operation of the event's list if the event has one, else the answer of an absent list;
 * they never create an entry */
#define ON_LIST(OP, EXTRA, ABSENT) \
  __CPROVER_ensures(ED_OK(self) && HAS(self) == __CPROVER_old(HAS(self))) \
  __CPROVER_ensures((*event == g_K && HAS(self)) ==> (CL_LOG_ED(OP) && g_cl == WLIST(self) && (EXTRA))) \
  __CPROVER_ensures((*event == g_K && !HAS(self)) ==> (g_n == __CPROVER_old(g_n) && (ABSENT))) \
  __CPROVER_ensures((*event != g_K) ==> ((g_n == __CPROVER_old(g_n) && (ABSENT)) || (CL_LOG_ED(OP) && g_cl == &g_anonP.second && (EXTRA))))
#define CONTRACT_ED_removeListener \
  __CPROVER_requires(ED_FRESH(self) && __CPROVER_is_fresh(event, sizeof(int)) && ED_PRE(self)) \
  __CPROVER_assigns(ED_FRAME(self)) \
  ON_LIST(4, g_hp == handle.p && __CPROVER_return_value == g_rb, !__CPROVER_return_value)
#define CONTRACT_ED_hasAnyListener \
  __CPROVER_requires(ED_FRESH(self) && __CPROVER_is_fresh(event, sizeof(int)) && ED_PRE(self)) \
  __CPROVER_assigns(ED_FRAME(self)) \
  ON_LIST(5, __CPROVER_return_value == !g_rb, !__CPROVER_return_value)
#define CONTRACT_ED_ownsHandle \
  __CPROVER_requires(ED_FRESH(self) && __CPROVER_is_fresh(event, sizeof(int)) && __CPROVER_is_fresh(handle, sizeof(Handle)) && ED_PRE(self)) \
  __CPROVER_assigns(ED_FRAME(self)) \
  ON_LIST(6, g_hp == handle->p && __CPROVER_return_value == g_rb, !__CPROVER_return_value)
#define CONTRACT_ED_forEach__UserEach \
  __CPROVER_requires(ED_FRESH(self) && __CPROVER_is_fresh(event, sizeof(int)) && __CPROVER_is_fresh(func, sizeof(UserEach)) && ED_PRE(self)) \
  __CPROVER_assigns(ED_FRAME(self)) \
  ON_LIST(7, g_fn == (void *)func, 1)
#define CONTRACT_ED_forEachIf__UserEachIf \
  __CPROVER_requires(ED_FRESH(self) && __CPROVER_is_fresh(event, sizeof(int)) && __CPROVER_is_fresh(func, sizeof(UserEachIf)) && ED_PRE(self)) \
  __CPROVER_assigns(ED_FRAME(self)) \
  ON_LIST(8, g_fn == (void *)func && __CPROVER_return_value == g_rb, __CPROVER_return_value)

/* ------------------------------------------------------------------ C12: the filters (mixin chain) = boundary `forEach`
 * requires: called with no dispatcher mutex held (filters are user code), on the dispatcher itself, with the
 * arguments as lvalues; they may modify the arguments; false = stop this dispatch */
/* filters are user code: one of them may register the FIRST listener of an event (appendListener on the dispatcher it
 * filters), which creates that event's list; nothing ever erases a list.  So across the chain the witness entry may
 * appear (an existing one stays what it is) */
#define CONTRACT_forEach \
  __CPROVER_requires((*args)->listenerMutex.depth == 0 && __CPROVER_is_fresh(args_2, sizeof(VArg))) \
  __CPROVER_assigns(args_2->id, g_mix_n, g_mix_ret, g_mix_postid, g_mix_self, g_mix_seq, g_seq) \
  __CPROVER_assigns(!(*args)->eventCallbackListMap.has: (*args)->eventCallbackListMap.has, (*args)->eventCallbackListMap.w) \
  __CPROVER_ensures(B01(g_mix_ret) && g_mix_n == __CPROVER_old(g_mix_n) + 1 && __CPROVER_return_value == g_mix_ret && g_mix_postid == args_2->id && g_mix_self == (void *)*args && \
                    g_seq == __CPROVER_old(g_seq) + 1 && g_mix_seq == g_seq) \
  __CPROVER_ensures(B01((*args)->eventCallbackListMap.has) && (__CPROVER_old((*args)->eventCallbackListMap.has) ==> (*args)->eventCallbackListMap.has) && \
                    ((*args)->eventCallbackListMap.has ==> (*args)->eventCallbackListMap.w.first == g_K))
/* the chain itself (obligation with -DOB_CHAIN): ForEachMixins::forEach -> DoMixinBeforeDispatch::forEach<MixinFilter> ->
 * MixinFilter::mixinBeforeDispatch on the dispatcher object itself with the caller's argument objects, its verdict returned */
#ifdef OB_CHAIN
#undef CONTRACT_forEach
#define CH_MF ((MF *)*args)
#define CONTRACT_forEach \
  __CPROVER_requires(__CPROVER_is_fresh(args, sizeof(ED *)) && __CPROVER_is_fresh(*args, sizeof(MF)) && __CPROVER_is_fresh(args_2, sizeof(VArg)) && __CPROVER_pointer_equals(g_dmutex, &(*args)->listenerMutex) && (*args)->listenerMutex.depth == 0) \
  __CPROVER_requires(g_fe_n >= 0 && g_fe_n < 1000 && g_n >= 0 && g_n < 1000 && g_seq < (1UL << 60)) \
  __CPROVER_assigns(args_2->id, g_fe_args, g_fe_list, g_fe_n, g_fe_ret, LOG) \
  __CPROVER_ensures(g_n == __CPROVER_old(g_n) + 1 && g_op == 5 && g_cl == &CH_MF->filterList) \
  __CPROVER_ensures(g_rb ? (g_fe_n == __CPROVER_old(g_fe_n) && __CPROVER_return_value) \
                         : (g_fe_n == __CPROVER_old(g_fe_n) + 1 && g_fe_list == &CH_MF->filterList && g_fe_args == args_2 && __CPROVER_return_value == g_fe_ret))
#endif
/* the pieces: MixinFilter::mixinBeforeDispatch runs the filter list with forEachIf, each filter is called with
 * the SAME argument objects (so later filters and the listeners see its modifications) and its verdict is returned;
 * an empty filter list lets the dispatch pass */
extern VArg *g_fe_args; extern CLT *g_fe_list; extern int g_fe_n; extern _Bool g_fe_ret;
#define CONTRACT_CLT_forEachIf__MF_mixinBeforeDispatch__lambda0 \
  __CPROVER_requires(NO_DLOCK) \
  __CPROVER_assigns(g_fe_args, g_fe_list, g_fe_n, g_fe_ret, a0.cap_args->id) \
  __CPROVER_ensures(B01(g_fe_ret) && g_fe_n == __CPROVER_old(g_fe_n) + 1 && g_fe_list == self && g_fe_args == a0.cap_args && __CPROVER_return_value == g_fe_ret)
extern int g_cb_n; extern VArg *g_cb_arg; extern _Bool g_cb_ret; extern Callback *g_cb_f;
#define CONTRACT_Callback_call \
  __CPROVER_assigns(a0->id, g_cb_n, g_cb_arg, g_cb_ret, g_cb_f) \
  __CPROVER_ensures(B01(g_cb_ret) && g_cb_n == __CPROVER_old(g_cb_n) + 1 && g_cb_arg == a0 && g_cb_f == f && __CPROVER_return_value == g_cb_ret)
#define CONTRACT_MF_mixinBeforeDispatch__lambda0_call \
  __CPROVER_requires(__CPROVER_is_fresh(__c, sizeof(*__c)) && __CPROVER_is_fresh(__c->cap_args, sizeof(VArg)) && __CPROVER_is_fresh(callback, sizeof(Callback)) && g_cb_n >= 0 && g_cb_n < 1000) \
  __CPROVER_assigns(__c->cap_args->id, g_cb_n, g_cb_arg, g_cb_ret, g_cb_f) \
  __CPROVER_ensures(g_cb_n == __CPROVER_old(g_cb_n) + 1 && g_cb_arg == __c->cap_args && g_cb_f == callback && __CPROVER_return_value == g_cb_ret)   /* the filter, once, on the caller's objects */
#define CONTRACT_MF_mixinBeforeDispatch \
  __CPROVER_requires(__CPROVER_is_fresh(self, sizeof(MF)) && __CPROVER_is_fresh(args, sizeof(VArg)) && __CPROVER_pointer_equals(g_dmutex, &self->base_ED.listenerMutex) && self->base_ED.listenerMutex.depth == 0) \
  __CPROVER_requires(g_fe_n >= 0 && g_fe_n < 1000 && g_n >= 0 && g_n < 1000 && g_seq < (1UL << 60)) \
  __CPROVER_assigns(args->id, g_fe_args, g_fe_list, g_fe_n, g_fe_ret, LOG) \
  __CPROVER_ensures((g_rb || B01(g_fe_ret)) && B01(g_rb) && B01(__CPROVER_return_value)) \
  __CPROVER_ensures(g_n == __CPROVER_old(g_n) + 1 && g_op == 5 && g_cl == &self->filterList)                 /* empty() of the filter list */ \
  __CPROVER_ensures(g_rb ? (g_fe_n == __CPROVER_old(g_fe_n) && __CPROVER_return_value) \
                         : (g_fe_n == __CPROVER_old(g_fe_n) + 1 && g_fe_list == &self->filterList && g_fe_args == args && __CPROVER_return_value == g_fe_ret))
#define CONTRACT_MF_removeFilter \
  __CPROVER_requires(__CPROVER_is_fresh(self, sizeof(MF)) && __CPROVER_is_fresh(filterHandle, sizeof(Handle)) && __CPROVER_pointer_equals(g_dmutex, &self->base_ED.listenerMutex) && self->base_ED.listenerMutex.depth == 0 && g_n >= 0 && g_n < 1000 && g_seq < (1UL << 60)) \
  __CPROVER_assigns(LOG) \
  __CPROVER_ensures(CL_LOG_ED(4) && g_cl == &self->filterList && g_hp == filterHandle->p && __CPROVER_return_value == g_rb)

/* ------------------------------------------------------------------ C04 / C12: directDispatch
 * the filters run first, exactly once, on the dispatcher's own argument objects; a false verdict stops this dispatch
 * (no list is invoked); otherwise exactly the list registered for *e is invoked, once, with the argument values as the
 * filters left them, with no mutex held; if the event has no list nothing is invoked */
#define DD_POST(MIXED) \
  __CPROVER_ensures(ED_OK(self) && ((MIXED) ? (__CPROVER_old(HAS(self)) ==> HAS(self)) : HAS(self) == __CPROVER_old(HAS(self)))) \
  __CPROVER_ensures(g_dd_n == __CPROVER_old(g_dd_n) + 1 && g_dd_key == __CPROVER_old(*e) && g_dd_arg == __CPROVER_old(args.id)) \
  __CPROVER_ensures((MIXED) ==> (g_mix_n == __CPROVER_old(g_mix_n) + 1 && g_mix_self == (void *)self)) \
  __CPROVER_ensures(((MIXED) && !g_mix_ret) ==> g_n == __CPROVER_old(g_n)) \
  __CPROVER_ensures((!(MIXED) || g_mix_ret) ==> ( \
      ((__CPROVER_old(*e) == g_K && HAS(self)) ==> (CL_LOG_ED(9) && g_cl == WLIST(self) && g_cbid == ((MIXED) ? g_mix_postid : __CPROVER_old(args.id)) && (!(MIXED) || g_mix_seq < g_call_seq))) && \
      ((__CPROVER_old(*e) == g_K && !HAS(self)) ==> g_n == __CPROVER_old(g_n)) && \
      ((__CPROVER_old(*e) != g_K) ==> (g_n == __CPROVER_old(g_n) || (CL_LOG_ED(9) && g_cl == &g_anonP.second)))))
#define DD_LOG g_dd_n, g_dd_key, g_dd_arg
static inline void dd_log(int key, int arg) { g_dd_n++; g_dd_key = key; g_dd_arg = arg; }
#define FN_ENTRY_ED_directDispatch dd_log(*e, args.id)
#define FN_ENTRY_EDX_directDispatch dd_log(*e, args.id)
#define FN_ENTRY_EDY_directDispatch dd_log(*e, args.id)
#define CONTRACT_ED_directDispatch \
  __CPROVER_requires(ED_FRESH(self) && __CPROVER_is_fresh(e, sizeof(int)) && ED_PRE(self) && g_dd_n >= 0 && g_dd_n < 1000 && g_mix_n >= 0 && g_mix_n < 1000) \
  __CPROVER_assigns(ED_FRAME(self), DD_LOG, g_mix_n, g_mix_ret, g_mix_postid, g_mix_self, g_mix_seq) \
  DD_POST(1)
#define CONTRACT_EDX_directDispatch \
  __CPROVER_requires(ED_FRESH(self) && __CPROVER_is_fresh(e, sizeof(int)) && ED_PRE(self) && g_dd_n >= 0 && g_dd_n < 1000) \
  __CPROVER_assigns(ED_FRAME(self), DD_LOG) \
  DD_POST(0)

/* ------------------------------------------------------------------ C04: dispatch = directDispatch of the event that getEvent yields from
 * the call's OWN argument values, with those same values -- whatever order the compiler evaluates the operands in */
#define CONTRACT_ED_dispatch \
  __CPROVER_requires(ED_FRESH(self) && ED_PRE(self) && g_dd_n >= 0 && g_dd_n < 1000 && g_mix_n >= 0 && g_mix_n < 1000) \
  __CPROVER_assigns(ED_FRAME(self), DD_LOG, g_mix_n, g_mix_ret, g_mix_postid, g_mix_self, g_mix_seq) \
  __CPROVER_ensures(g_dd_n == __CPROVER_old(g_dd_n) + 1 && g_dd_key == (__CPROVER_old(args.id) ^ 0x2a) && g_dd_arg == __CPROVER_old(args.id))
#define CONTRACT_EDX_dispatch__int \
  __CPROVER_requires(ED_FRESH(self) && __CPROVER_is_fresh(first, sizeof(int)) && ED_PRE(self) && g_dd_n >= 0 && g_dd_n < 1000) \
  __CPROVER_assigns(ED_FRAME(self), DD_LOG) \
  __CPROVER_ensures(g_dd_n == __CPROVER_old(g_dd_n) + 1 && g_dd_key == __CPROVER_old(*first) && g_dd_arg == __CPROVER_old(args.id))

#define CONTRACT_EDY_directDispatch \
  __CPROVER_requires(ED_FRESH(self) && __CPROVER_is_fresh(e, sizeof(int)) && ED_PRE(self) && g_dd_n >= 0 && g_dd_n < 1000) \
  __CPROVER_assigns(ED_FRAME(self), DD_LOG) \
  DD_POST(0)
/* exclude-event form with a user getEvent(first, args...) policy: the policy decides, not the first argument */
#define CONTRACT_EDY_dispatch__int \
  __CPROVER_requires(ED_FRESH(self) && __CPROVER_is_fresh(first, sizeof(int)) && ED_PRE(self) && g_dd_n >= 0 && g_dd_n < 1000) \
  __CPROVER_assigns(ED_FRAME(self), DD_LOG) \
  __CPROVER_ensures(g_dd_n == __CPROVER_old(g_dd_n) + 1 && g_dd_key == (__CPROVER_old(*first) ^ __CPROVER_old(args.id) ^ 0x55) && g_dd_arg == __CPROVER_old(args.id))

/* ------------------------------------------------------------------ C10: copies, moves, swap of the dispatcher (the lists themselves: unit callbacklist) */
#define ED2_FRESH(a, b) (__CPROVER_is_fresh(a, sizeof(ED)) && __CPROVER_is_fresh(b, sizeof(ED)))
#define CONTRACT_ED_ctor \
  __CPROVER_requires(__CPROVER_is_fresh(self, sizeof(ED))) __CPROVER_assigns(__CPROVER_object_whole(self)) \
  __CPROVER_ensures(!HAS(self) && self->listenerMutex.depth == 0 && self->eventCallbackListMap.guard == &self->listenerMutex)
#define CONTRACT_ED_ctor_copy \
  __CPROVER_requires(ED2_FRESH(self, other)) __CPROVER_assigns(__CPROVER_object_whole(self)) \
  __CPROVER_ensures(HAS(self) == HAS(other) && (HAS(self) ==> self->eventCallbackListMap.w.first == other->eventCallbackListMap.w.first) && self->listenerMutex.depth == 0 && self->eventCallbackListMap.guard == &self->listenerMutex)
#define CONTRACT_ED_ctor_move \
  __CPROVER_requires(ED2_FRESH(self, other)) __CPROVER_assigns(__CPROVER_object_whole(self), other->eventCallbackListMap.has) \
  __CPROVER_ensures(HAS(self) == __CPROVER_old(HAS(other)) && self->listenerMutex.depth == 0 && self->eventCallbackListMap.guard == &self->listenerMutex)
#define CONTRACT_ED_assign_copy \
  __CPROVER_requires(__CPROVER_is_fresh(self, sizeof(ED)) && (__CPROVER_pointer_equals(other, self) || __CPROVER_is_fresh(other, sizeof(ED)))) \
  __CPROVER_assigns(self->eventCallbackListMap.has, self->eventCallbackListMap.w) \
  __CPROVER_ensures(HAS(self) == __CPROVER_old(HAS(other)) && HAS(other) == __CPROVER_old(HAS(other)) && __CPROVER_return_value == self) \
  __CPROVER_ensures(other == self ==> self->eventCallbackListMap.w.second.opaque == __CPROVER_old(self->eventCallbackListMap.w.second.opaque))   /* assignment from itself changes nothing: the same list objects, the same handles */
#define CONTRACT_ED_assign_move \
  __CPROVER_requires(__CPROVER_is_fresh(self, sizeof(ED)) && (__CPROVER_pointer_equals(other, self) || __CPROVER_is_fresh(other, sizeof(ED)))) \
  __CPROVER_assigns(self->eventCallbackListMap.has, self->eventCallbackListMap.w, other->eventCallbackListMap.has) \
  __CPROVER_ensures((other != self ==> HAS(self) == __CPROVER_old(HAS(other))) && __CPROVER_return_value == self)
#define CONTRACT_ED_swap \
  __CPROVER_requires(__CPROVER_is_fresh(self, sizeof(ED)) && (__CPROVER_pointer_equals(other, self) || __CPROVER_is_fresh(other, sizeof(ED)))) \
  __CPROVER_assigns(self->eventCallbackListMap.has, self->eventCallbackListMap.w, other->eventCallbackListMap.has, other->eventCallbackListMap.w) \
  __CPROVER_ensures(HAS(self) == __CPROVER_old(HAS(other)) && HAS(other) == __CPROVER_old(HAS(self)))
