/* spec for unit "anydata" (C17) */
extern int g_small_ctor, g_small_dtor, g_big_ctor, g_big_dtor;     /* how many user objects were constructed / destroyed */
extern const char g_tag_funcFreeObject_Small, g_tag_funcFreeObject_LD, g_tag_funcFreeObject_Big,
                  g_tag_funcMoveConstruct_Small, g_tag_funcMoveConstruct_LD, g_tag_funcMoveConstruct_Big,
                  g_tag_funcDeleteObject_Small, g_tag_funcDeleteObject_Big;
#define FN_TAG(fn, T) ((FnTag)&g_tag_##fn##_##T)
#define SRC_ASSERT(e) __CPROVER_assert(e, "assert() in the source (anydata.h) holds")
#define AD_OF(p) ((AD *)((char *)(p) - __builtin_offsetof(AD, buffer)))
/* placement new of a Small into an AnyData's inline buffer */
static inline void placement_new_Small(void *p, Small v)
{
  __CPROVER_assert(sizeof(Small) <= sizeof(RawBuf), "placement new: the object fits the inline buffer");
  __CPROVER_assert(!AD_OF(p)->live_small, "object lifetime: no construction over a live object");
  *(Small *)p = v; AD_OF(p)->live_small = 1; g_small_ctor++;
}
#define PLACEMENT_NEW(T, p, v) placement_new_##T(p, v)
/* explicit destructor call on an inline Small */
static inline void small_dtor(Small *p)
{
  __CPROVER_assert(AD_OF(p)->live_small, "object lifetime: destroyed exactly once (double destruction, or destruction of a non-object)");
  AD_OF(p)->live_small = 0; g_small_dtor++;
}
#define Small_DTOR(p) small_dtor(p)
#define Big_DTOR(p) __CPROVER_assert(0, "a Big is never stored inline")
/* new / delete of a Big */
static inline Big *new_Big(Big v) { Big *p = malloc(sizeof(Big)); __CPROVER_assume(p != NULL); *p = v; p->live = 1; g_big_ctor++; return p; }
#define NEW_OBJ(T, v) new_##T(v)
static inline void delete_Big(Big *p)
{
  __CPROVER_assert(p->live, "object lifetime: a heap object is deleted exactly once");
  p->live = 0; g_big_dtor++;         /* (storage kept so that a later access is still checkable) */
}
#define DELETE_OBJ_Big(p) delete_Big(p)
#define DELETE_OBJ_Small(p) __CPROVER_assert(0, "a Small is never stored on the heap")
#define DELETE_OBJ(T, p) DELETE_OBJ_##T(p)
/* calls through the stored function pointers: the instantiations of this translation unit */
void funcFreeObject__Small(void *); void funcFreeObject__LD(void *); void funcFreeObject__Big(void *);
void funcMoveConstruct__Small(void *, void *); void funcMoveConstruct__LD(void *, void *); void funcMoveConstruct__Big(void *, void *);
void funcDeleteObject__Small(void *); void funcDeleteObject__Big(void *);
/* AnyDataFunctions::free */
static inline void fnptr_call_free(FnTag f, void *p)
{
  if (f == FN_TAG(funcFreeObject, Small)) funcFreeObject__Small(p);
  else if (f == FN_TAG(funcFreeObject, LD)) funcFreeObject__LD(p);
  else if (f == FN_TAG(funcFreeObject, Big)) funcFreeObject__Big(p);
  else __CPROVER_assert(0, "free is called through a pointer that holds funcFreeObject of the stored type");
}
#define FNPTR_CALL_free(f, p) fnptr_call_free(f, p)
/* AnyDataFunctions::moveConstruct */
static inline void fnptr_call_move(FnTag f, void *a, void *b)
{
  if (f == FN_TAG(funcMoveConstruct, Small)) funcMoveConstruct__Small(a, b);
  else if (f == FN_TAG(funcMoveConstruct, LD)) funcMoveConstruct__LD(a, b);
  else if (f == FN_TAG(funcMoveConstruct, Big)) funcMoveConstruct__Big(a, b);
  else __CPROVER_assert(0, "moveConstruct is called through a pointer that holds funcMoveConstruct of the stored type");
}
#define FNPTR_CALL_moveConstruct(f, a, b) fnptr_call_move(f, a, b)
/* LargeData::deleter */
static inline void fnptr_call_deleter(FnTag f, void *p)
{
  if (f == FN_TAG(funcDeleteObject, Big)) funcDeleteObject__Big(p);
  else if (f == FN_TAG(funcDeleteObject, Small)) funcDeleteObject__Small(p);
  else __CPROVER_assert(0, "the deleter is funcDeleteObject of the stored type");
}
#define FNPTR_CALL_deleter(f, p) fnptr_call_deleter(f, p)

/* ------------------------------------------------------------------ the property, as loop-free lemmas over the extracted functions (full symbolic
 * domain of the stored values; a complete proof, not a bounded one) */
void AD_ctor2__Small(AD *, Small *); void AD_ctor2__Small_2(AD *, Small *); void AD_ctor2__Big(AD *, Big *); void AD_ctor2__Big_2(AD *, Big *);
void AD_ctor_move(AD *, AD *); void AD_dtor(AD *); void *AD_getAddress(AD *); Small *AD_get__Small(AD *); Big *AD_get__Big(AD *);
_Bool AD_isType__Small(AD *); _Bool AD_isType__Big(AD *);
#define L_ASSERT(e, msg) __CPROVER_assert(e, "C17: " msg)
/* a small object: copied or moved in, read back equal at a stable inline address, isType exact, moving the AnyData
 * moves the object, every object destroyed exactly once */
void lemma_anydata_small(void) __CPROVER_requires(1) __CPROVER_ensures(1) __CPROVER_assigns(g_small_ctor, g_small_dtor, g_big_ctor, g_big_dtor)
{
  Small s; s.id = nondet_int(); int id0 = s.id; _Bool by_move = nondet_bool();
  AD a; a.live_small = 0; AD m; m.live_small = 0;
  g_small_ctor = 0; g_small_dtor = 0; g_big_ctor = 0; g_big_dtor = 0;
  if (by_move) AD_ctor2__Small_2(&a, &s); else AD_ctor2__Small(&a, &s);
  L_ASSERT(by_move || s.id == id0, "constructing from an lvalue copies: the caller's object is untouched");
  L_ASSERT(AD_isType__Small(&a) && !AD_isType__Big(&a), "isType<T> is true exactly for the stored type");
  L_ASSERT(AD_get__Small(&a)->id == id0, "reading back as the same type yields an equal value");
  void *addr = AD_getAddress(&a);
  L_ASSERT(addr == (void *)&a.buffer && AD_getAddress(&a) == addr && (void *)AD_get__Small(&a) == addr, "the address is stable and the same through get / getAddress");
  L_ASSERT(a.live_small && g_small_ctor == 1 && g_small_dtor == 0, "AnyData holds its own object");
  AD_ctor_move(&m, &a);
  L_ASSERT(AD_isType__Small(&m) && !AD_isType__Big(&m) && AD_get__Small(&m)->id == id0, "moving an AnyData moves the held object");
  L_ASSERT(m.live_small && a.live_small && g_small_ctor == 2, "the moved-from AnyData still holds a (moved-from) object of the stored type");
  AD_dtor(&a); AD_dtor(&m);
  L_ASSERT(!a.live_small && !m.live_small && g_small_dtor == 2 && g_big_ctor == 0 && g_big_dtor == 0, "every held object is destroyed exactly once");
  VACUITY_REACH(lemma_anydata_small, 0);
}
/* an object larger than the inline capacity behaves identically, at a stable heap address */
void lemma_anydata_big(void) __CPROVER_requires(1) __CPROVER_ensures(1) __CPROVER_assigns(g_small_ctor, g_small_dtor, g_big_ctor, g_big_dtor)
{
  Big b; b.id = nondet_int(); b.live = 1; int id0 = b.id; _Bool by_move = nondet_bool();
  AD c; c.live_small = 0; AD m; m.live_small = 0;
  g_small_ctor = 0; g_small_dtor = 0; g_big_ctor = 0; g_big_dtor = 0;
  if (by_move) AD_ctor2__Big_2(&c, &b); else AD_ctor2__Big(&c, &b);
  L_ASSERT(by_move || b.id == id0, "constructing from an lvalue copies: the caller's object is untouched");
  L_ASSERT(AD_isType__Big(&c) && !AD_isType__Small(&c), "isType<T> is true exactly for the stored type (large object)");
  L_ASSERT(AD_get__Big(&c)->id == id0 && AD_get__Big(&c)->live, "reading back as the same type yields an equal value (large object)");
  void *addr = AD_getAddress(&c);
  L_ASSERT(addr != (void *)&c.buffer && addr != (void *)&b && AD_getAddress(&c) == addr && (void *)AD_get__Big(&c) == addr, "AnyData holds its own copy at a stable address");
  L_ASSERT(g_big_ctor == 1 && g_big_dtor == 0 && !c.live_small, "exactly one heap object");
  AD_ctor_move(&m, &c);
  L_ASSERT(AD_isType__Big(&m) && !AD_isType__Small(&m) && AD_getAddress(&m) == addr && AD_get__Big(&m)->id == id0, "moving an AnyData moves the held object; its address does not change (large object)");
  AD_dtor(&c);
  L_ASSERT(AD_get__Big(&m)->live && g_big_dtor == 0, "destroying the moved-from AnyData does not destroy the object that moved on");
  AD_dtor(&m);
  L_ASSERT(g_big_ctor == 1 && g_big_dtor == 1 && !((Big *)addr)->live && g_small_ctor == 0 && g_small_dtor == 0, "every held object is destroyed exactly once (large object)");
  VACUITY_REACH(lemma_anydata_big, 0);
}
/* placement new into the inline buffer requires suitably aligned storage: for EVERY type the inline constructor accepts
 * (any object type whose size fits; fundamental alignments are the powers of two up to alignof(std::max_align_t) == 16
 * on this ABI), with the record layout clang gives the real class (FACT_* from -fdump-record-layouts) */
void lemma_anydata_align(void) __CPROVER_requires(1) __CPROVER_ensures(1) __CPROVER_assigns()
{
  int cex_align = nondet_int();
  __CPROVER_assume(cex_align == 1 || cex_align == 2 || cex_align == 4 || cex_align == 8 || cex_align == 16);
  L_ASSERT(FACT_ALIGNOF_AD % cex_align == 0 && FACT_OFFSETOF_AD_buffer % cex_align == 0,
           "the inline buffer is suitably aligned for every stored type with a fundamental alignment (else placement new is undefined behaviour)");
  VACUITY_REACH(lemma_anydata_align, 0);
}
