/* unit "anydata": the stored user types are opaque values with an identity; liveness is ghost state */
typedef struct Small { int id; } Small;              /* a user type that fits inline */
typedef struct Big { int id; _Bool live; } Big;      /* a user type larger than the inline capacity (lives on the heap); live: ghost */
typedef const void *FnTag;                           /* address of a function template instantiation = its identity */
typedef struct ADF { FnTag free; FnTag moveConstruct; } ADF;      /* anydata_internal_::AnyDataFunctions */
typedef struct RawBuf { unsigned char b[16] __attribute__((aligned(8))); } RawBuf;    /* std::array<uint8_t, 16>: raw storage */
/* ghost: an inline Small object is alive in this AnyData's buffer */
#define GHOST_FIELDS_AD _Bool live_small;
int nondet_int(void); _Bool nondet_bool(void);
void *malloc(__CPROVER_size_t);
#define Small_COPY(p) (*(p))
#define Small_MOVE(p) ({ Small __t = *(p); (p)->id = nondet_int(); __t; })          /* moved-from: unspecified value, still an object */
#define Big_COPY(p) (*(p))
#define Big_MOVE(p) ({ Big __t = *(p); (p)->id = nondet_int(); __t; })
#define SCALAR_SWAP(a, b) do { __typeof__(*(a)) __t = *(a); *(a) = *(b); *(b) = __t; } while (0)
