/* unit "scopedremover": the targets (CallbackList / EventDispatcher / EventQueue) are environment here */
typedef struct Node Node;                               /* list node: identity only */
typedef struct Handle { Node *p; } Handle;              /* CallbackList::Handle (weak_ptr<Node>) */
typedef struct VArg { int id; } VArg;
typedef struct CLT { int opaque; } CLT;                 /* CallbackList<void(VArg), Pol> */
typedef struct EDT { int opaque; } EDT;                 /* EventDispatcher<int, void(VArg), Pol> */
/* witness abstraction of std::vector<Item>: length and the position of the ONE item that records the witness handle */
typedef struct WVecC { long len; long wpos; } WVecC;
typedef struct WVecD { long len; long wpos; } WVecD;
typedef struct WVItC { WVecC *v; long i; } WVItC;
typedef struct WVItD { WVecD *v; long i; } WVItD;
_Bool nondet_bool(void); long nondet_long(void);
#define ItemC_COPY(p) (*(p))
#define ItemC_MOVE(p) (*(p))
#define ItemD_COPY(p) (*(p))
#define ItemD_MOVE(p) (*(p))
#define SCALAR_SWAP(a, b) do { __typeof__(*(a)) __t = *(a); *(a) = *(b); *(b) = __t; } while (0)
