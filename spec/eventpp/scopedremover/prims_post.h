/* spec for unit "scopedremover" */
/* ------------------------------------------------------------------ the witness listener
 * g_H: the node of ONE ARBITRARY listener that is added through a remover; g_att: it is attached; g_att_cl / g_att_ed /
 * g_att_ev: where.  Every other handle is anonymous. */
extern Node *g_H; extern _Bool g_created, g_att; extern CLT *g_att_cl; extern EDT *g_att_ed; extern int g_att_ev;
extern ItemC g_IC, g_anonC; extern ItemD g_ID, g_anonD;
extern int g_removes_H;         /* how often remove was called on the witness's own target with the witness handle */
extern int g_removes_foreign;   /* remove calls with a handle the remover does not record (must stay 0: frame) */

/* weak_ptr: an attached listener's node is alive; a detached one may or may not still be referenced */
extern _Bool g_H_held, g_other_alive;   /* stable within one call: the detached witness node / the anonymous node is still referenced elsewhere */
static inline Node *weak_lock(Handle *h)
{
  if (h->p == NULL) return NULL;
  if (h->p == g_H) return (g_att || g_H_held) ? h->p : NULL;
  return g_other_alive ? h->p : NULL;
}
static inline _Bool weak_expired(Handle *h) { return weak_lock(h) == NULL; }
#define HANDLE_FROM_SP(x) ((Handle){(x)})

/* ------------------------------------------------------------------ TRUSTED std::vector<Item> abstraction */
#define WVEC_DEF(V, IT, ITEM, W, ANON) \
static inline void V##_init(V *v) { v->len = 0; v->wpos = -1; } \
static inline ITEM *V##_at(V *v, long i) { \
  __CPROVER_assert(i >= 0 && i < v->len, "std::vector: element access inside the vector"); \
  if (v->wpos == i) return &W; \
  ITEM fresh; ANON = fresh; __CPROVER_assume(ANON.handle.p != g_H || g_H == NULL); return &ANON; } \
static inline void V##_push_back(V *v, ITEM *it) { \
  if (it->handle.p == g_H && g_H != NULL) { __CPROVER_assert(v->wpos < 0, "the witness handle is recorded once"); W = *it; v->wpos = v->len; } \
  v->len++; } \
static inline void V##_erase(V *v, IT it) { \
  __CPROVER_assert(it.v == v && it.i >= 0 && it.i < v->len, "std::vector::erase: dereferenceable iterator"); \
  if (v->wpos == it.i) v->wpos = -1; else if (v->wpos > it.i) v->wpos--; \
  v->len--; } \
static inline void V##_move(V *d, V *s) { *d = *s; s->len = 0; s->wpos = -1; } \
static inline _Bool V##_ne(IT a, IT b) { __CPROVER_assert(a.v == b.v, "iterators of the same vector"); return a.i != b.i; }
WVEC_DEF(WVecC, WVItC, ItemC, g_IC, g_anonC)
WVEC_DEF(WVecD, WVItD, ItemD, g_ID, g_anonD)
#define WVEC_INIT(v) _Generic((v), WVecC *: WVecC_init, WVecD *: WVecD_init)(v)
#define WVEC_DTOR(v) ((void)0)                     /* destroying the vector destroys the RECORDS, not the listeners */
#define WVEC_CLEAR(v) _Generic((v), WVecC *: WVecC_init, WVecD *: WVecD_init)(v)
#define WVEC_EMPTY(v) ((v)->len == 0)
#define WVEC_BEGIN(v) _Generic((v), WVecC *: (WVItC){(WVecC *)(v), 0}, WVecD *: (WVItD){(WVecD *)(v), 0})
#define WVEC_END(v) _Generic((v), WVecC *: (WVItC){(WVecC *)(v), (v)->len}, WVecD *: (WVItD){(WVecD *)(v), (v)->len})
#define WVIT_NE(a, b) _Generic((a), WVItC: WVecC_ne, WVItD: WVecD_ne)(a, b)
#define WVIT_INC(p) ((p)->i++)
#define WVIT_DEREF(it) _Generic((it), WVItC: WVecC_at, WVItD: WVecD_at)((it).v, (it).i)
#define WVEC_PUSH_BACK(v, item) _Generic((v), WVecC *: WVecC_push_back, WVecD *: WVecD_push_back)(v, item)
#define WVEC_ERASE(v, it) _Generic((v), WVecC *: WVecC_erase, WVecD *: WVecD_erase)(v, it)
#define WVEC_CTOR_MOVE(d, s) _Generic((d), WVecC *: WVecC_move, WVecD *: WVecD_move)(d, s)
/* move assignment: the destination's old elements are destroyed (the records are dropped), then it takes the source's */
#define WVEC_ASSIGN_MOVE(d, s) _Generic((d), WVecC *: WVecC_move, WVecD *: WVecD_move)(d, s)
#define WVEC_SWAP(a, b) do { __typeof__(*(a)) __t = *(a); *(a) = *(b); *(b) = __t; } while (0)
/* std::find_if(begin, end, pred): first position whose element satisfies pred.  On the abstraction: the witness item
 * is found iff pred holds for it; an anonymous item may or may not match (its handle differs from the witness's). */
#define WVEC_FIND_IF(b, e, callfn, clos) ({ __typeof__(b) __r = (e); \
    if ((b).v->wpos >= 0 && callfn(clos, WVIT_DEREF(((__typeof__(b)){(b).v, (b).v->wpos})))) __r.i = (b).v->wpos; \
    else if (nondet_bool()) { long __p = nondet_long(); __CPROVER_assume(__p >= 0 && __p < (b).v->len && __p != (b).v->wpos); \
                              if (callfn(clos, WVIT_DEREF(((__typeof__(b)){(b).v, __p})))) __r.i = __p; } \
    __r; })

/* ------------------------------------------------------------------ environment: the targets.
 * add: returns a fresh handle; it may be THE witness (only once).  remove: detaches exactly the given handle from
 * exactly the given target; inert for a handle that is not attached there. */
#define ADD_CONTRACT(TGT, SETWHERE) \
  __CPROVER_assigns(g_created, g_att, g_att_cl, g_att_ed, g_att_ev) \
  __CPROVER_ensures(__CPROVER_return_value.p != NULL) \
  __CPROVER_ensures((!__CPROVER_old(g_created) && g_created) ? (__CPROVER_return_value.p == g_H && g_att && SETWHERE) \
                    : (__CPROVER_return_value.p != g_H && g_created == __CPROVER_old(g_created) && g_att == __CPROVER_old(g_att) && \
                       g_att_cl == __CPROVER_old(g_att_cl) && g_att_ed == __CPROVER_old(g_att_ed) && g_att_ev == __CPROVER_old(g_att_ev)))
#define CONTRACT_CLT_append  ADD_CONTRACT(CLT, (g_att_cl == self))
#define CONTRACT_CLT_prepend ADD_CONTRACT(CLT, (g_att_cl == self))
#define CONTRACT_CLT_insert  ADD_CONTRACT(CLT, (g_att_cl == self))
#define CONTRACT_EDT_appendListener  ADD_CONTRACT(EDT, (g_att_ed == self && g_att_ev == *a0))
#define CONTRACT_EDT_prependListener ADD_CONTRACT(EDT, (g_att_ed == self && g_att_ev == *a0))
#define CONTRACT_EDT_insertListener  ADD_CONTRACT(EDT, (g_att_ed == self && g_att_ev == *a0))
#define CONTRACT_CLT_remove \
  __CPROVER_assigns(g_att, g_removes_H) \
  __CPROVER_ensures((a0->p == g_H && g_H != NULL) ? ((__CPROVER_old(g_att) && g_att_cl == self) ? (!g_att && __CPROVER_return_value) : (g_att == __CPROVER_old(g_att) && !__CPROVER_return_value)) \
                                                 : g_att == __CPROVER_old(g_att)) \
  __CPROVER_ensures(g_removes_H == __CPROVER_old(g_removes_H) + ((a0->p == g_H && g_H != NULL) ? 1 : 0))
#define CONTRACT_EDT_removeListener \
  __CPROVER_assigns(g_att, g_removes_H) \
  __CPROVER_ensures((a1.p == g_H && g_H != NULL) ? ((__CPROVER_old(g_att) && g_att_ed == self && g_att_ev == *a0) ? (!g_att && __CPROVER_return_value) : (g_att == __CPROVER_old(g_att) && !__CPROVER_return_value)) \
                                                : g_att == __CPROVER_old(g_att)) \
  __CPROVER_ensures(g_removes_H == __CPROVER_old(g_removes_H) + ((a1.p == g_H && g_H != NULL) ? 1 : 0))

/* ================================================================== ScopedRemover<CallbackList> (scopedremover.h:196-325)
 * REC(r): remover r records the witness handle (is responsible for it).  A remover's records refer to its target. */
#define VSMALL(v) ((v).len < (1L << 39))
#define GH_OK (g_removes_H >= 0 && g_removes_H < 1000)
#define GH_SMALL (g_removes_H < 500)
#define VOK(v) ((v).len >= 0 && (v).len < (1L << 40) && (v).wpos >= -1 && (v).wpos < (v).len)
#define RECC(r) ((r)->itemList.wpos >= 0)
#define SRC_OK(r) (GH_OK && VOK((r)->itemList) && (r)->itemListMutex.depth == 0 && (RECC(r) ==> (g_IC.handle.p == g_H && g_H != NULL && g_created && (r)->callbackList == g_att_cl && (r)->callbackList != NULL)))
#define WGHOSTS g_att, g_removes_H, g_anonC, g_anonD
#define LOOP_CONTRACT_SRC_reset__loop0 \
  __CPROVER_assigns(__begin_L0.i, WGHOSTS) \
  __CPROVER_loop_invariant(0 <= __begin_L0.i && __begin_L0.i <= self->itemList.len) \
  __CPROVER_loop_invariant((RECC(self) && self->itemList.wpos < __begin_L0.i) ? (!g_att && g_removes_H == __CPROVER_loop_entry(g_removes_H) + 1) : (g_att == __CPROVER_loop_entry(g_att) && g_removes_H == __CPROVER_loop_entry(g_removes_H))) \
  __CPROVER_decreases(self->itemList.len - __begin_L0.i)
/* reset / destructor: every recorded listener is detached from the target, the records are cleared; a listener this
 * remover does not record is not touched */
#define SRC_RESET_BODY \
  __CPROVER_requires(__CPROVER_is_fresh(self, sizeof(SRC)) && g_removes_H < 900 && SRC_OK(self)) \
  __CPROVER_assigns(self->itemList, self->itemListMutex.depth, WGHOSTS) \
  __CPROVER_ensures(VOK(self->itemList) && self->itemListMutex.depth == 0 && self->itemList.len == 0 && self->callbackList == __CPROVER_old(self->callbackList)) \
  __CPROVER_ensures(__CPROVER_old(self->itemList.wpos) >= 0 ? (!g_att && g_removes_H == __CPROVER_old(g_removes_H) + 1) : (g_att == __CPROVER_old(g_att) && g_removes_H == __CPROVER_old(g_removes_H)))
#define CONTRACT_SRC_reset SRC_RESET_BODY
#define CONTRACT_SRC_dtor SRC_RESET_BODY
/* re-targeting detaches first */
#define CONTRACT_SRC_setCallbackList \
  __CPROVER_requires(__CPROVER_is_fresh(self, sizeof(SRC)) && GH_SMALL && __CPROVER_is_fresh(callbackList_, sizeof(CLT)) && SRC_OK(self) && g_b0 == RECC(self)) \
  __CPROVER_assigns(self->itemList, self->itemListMutex.depth, self->callbackList, WGHOSTS) \
  __CPROVER_ensures(SRC_OK(self) && self->callbackList == callbackList_) \
  __CPROVER_ensures((g_b0 && __CPROVER_old(self->callbackList) != callbackList_) ? (!g_att && !RECC(self)) : (g_att == __CPROVER_old(g_att) && RECC(self) == g_b0))
/* adding through the remover: the new listener is recorded; an existing record is kept */
#define SRC_ADD_CONTRACT \
  __CPROVER_requires(__CPROVER_is_fresh(self, sizeof(SRC)) && GH_SMALL && __CPROVER_is_fresh(callback, sizeof(Callback)) && __CPROVER_is_fresh(self->callbackList, sizeof(CLT)) && SRC_OK(self) && VSMALL(self->itemList) && g_b0 == RECC(self)) \
  __CPROVER_requires(RECC(self) ==> g_created) \
  __CPROVER_assigns(self->itemList, self->itemListMutex.depth, g_created, g_att, g_att_cl, g_att_ed, g_att_ev, g_IC) \
  __CPROVER_ensures(SRC_OK(self) && self->itemList.len == __CPROVER_old(self->itemList.len) + 1) \
  __CPROVER_ensures((__CPROVER_return_value.p == g_H && g_H != NULL) ==> (RECC(self) && g_att && g_att_cl == self->callbackList)) \
  __CPROVER_ensures(g_b0 ==> RECC(self))
#define CONTRACT_SRC_append__Callback SRC_ADD_CONTRACT
#define CONTRACT_SRC_prepend__Callback SRC_ADD_CONTRACT
#define CONTRACT_SRC_insert__Callback \
  __CPROVER_requires(__CPROVER_is_fresh(before, sizeof(Handle))) \
  SRC_ADD_CONTRACT
/* removing through the remover: detaches at once and reports whether it was attached; a handle the remover does not
 * record is not passed to the target at all */
#define CONTRACT_SRC_remove \
  __CPROVER_requires(__CPROVER_is_fresh(self, sizeof(SRC)) && GH_SMALL && __CPROVER_is_fresh(self->callbackList, sizeof(CLT)) && SRC_OK(self) && g_b0 == RECC(self) && g_b1 == g_att) \
  __CPROVER_assigns(self->itemList, self->itemListMutex.depth, WGHOSTS) \
  __CPROVER_ensures(SRC_OK(self)) \
  __CPROVER_ensures((handle.p == g_H && g_H != NULL && g_b0 && g_b1) ==> (__CPROVER_return_value && !g_att && !RECC(self))) \
  __CPROVER_ensures((handle.p == g_H && g_H != NULL && g_b0 && !g_b1) ==> (!__CPROVER_return_value && !g_att))      /* recorded but already detached elsewhere: reports false */ \
  __CPROVER_ensures(!(handle.p == g_H && g_H != NULL) ==> (g_att == g_b1 && RECC(self) == g_b0))        /* other listeners and records untouched */ \
  __CPROVER_ensures(((handle.p == g_H && g_H != NULL) && !g_b0) ==> (g_att == g_b1 && g_removes_H == __CPROVER_old(g_removes_H) && !__CPROVER_return_value))  /* not added through this remover: never touched */
/* move construction: responsibility passes to the new remover; nothing is detached */
#define CONTRACT_SRC_ctor_move \
  __CPROVER_requires(__CPROVER_is_fresh(self, sizeof(SRC)) && GH_SMALL && __CPROVER_is_fresh(other, sizeof(SRC)) && SRC_OK(other) && g_b0 == RECC(other)) \
  __CPROVER_assigns(self->callbackList, self->itemList, self->itemListMutex, other->itemList, other->itemListMutex.depth, WGHOSTS) \
  __CPROVER_ensures(SRC_OK(self) && SRC_OK(other) && self->callbackList == __CPROVER_old(other->callbackList)) \
  __CPROVER_ensures(RECC(self) == g_b0 && !RECC(other) && g_att == __CPROVER_old(g_att) && g_removes_H == __CPROVER_old(g_removes_H))
/* move assignment: the source's responsibilities pass to the destination; whatever the destination was responsible for
 * before is detached or still somebody's responsibility afterwards (never left attached and unrecorded) */
#define CONTRACT_SRC_assign_move \
  __CPROVER_requires(__CPROVER_is_fresh(self, sizeof(SRC)) && GH_SMALL && __CPROVER_is_fresh(other, sizeof(SRC)) && SRC_OK(self) && SRC_OK(other)) \
  __CPROVER_requires(!(RECC(self) && RECC(other)) && g_b0 == RECC(self) && g_b1 == RECC(other)) \
  __CPROVER_assigns(self->callbackList, self->itemList, self->itemListMutex.depth, other->itemList, other->itemListMutex.depth, WGHOSTS) \
  __CPROVER_ensures(SRC_OK(self) && SRC_OK(other) && __CPROVER_return_value == self && self->callbackList == __CPROVER_old(other->callbackList)) \
  __CPROVER_ensures(g_b1 ==> (RECC(self) && g_att == __CPROVER_old(g_att)))                       /* taken over, still attached */ \
  __CPROVER_ensures(g_b0 ==> (!g_att || RECC(self) || RECC(other)))                               /* the destination's old listener does not outlive all removers */ \
  __CPROVER_ensures((!g_b0 && !g_b1) ==> g_att == __CPROVER_old(g_att))
/* swap exchanges targets and responsibilities */
#define CONTRACT_SRC_swap \
  __CPROVER_requires(__CPROVER_is_fresh(self, sizeof(SRC)) && GH_SMALL && __CPROVER_is_fresh(other, sizeof(SRC)) && SRC_OK(self) && SRC_OK(other) && !(RECC(self) && RECC(other))) \
  __CPROVER_requires(g_b0 == RECC(self) && g_b1 == RECC(other)) \
  __CPROVER_assigns(self->callbackList, self->itemList, other->callbackList, other->itemList) \
  __CPROVER_ensures(SRC_OK(self) && SRC_OK(other) && RECC(self) == g_b1 && RECC(other) == g_b0) \
  __CPROVER_ensures(self->callbackList == __CPROVER_old(other->callbackList) && other->callbackList == __CPROVER_old(self->callbackList))
#define CONTRACT_SRC_ctor \
  __CPROVER_requires(__CPROVER_is_fresh(self, sizeof(SRC))) \
  __CPROVER_assigns(__CPROVER_object_whole(self)) \
  __CPROVER_ensures(self->callbackList == NULL && self->itemList.len == 0 && !RECC(self) && self->itemListMutex.depth == 0)
#define CONTRACT_SRC_ctor1 \
  __CPROVER_requires(__CPROVER_is_fresh(self, sizeof(SRC)) && GH_SMALL && __CPROVER_is_fresh(callbackList, sizeof(CLT))) \
  __CPROVER_assigns(__CPROVER_object_whole(self)) \
  __CPROVER_ensures(self->callbackList == callbackList && self->itemList.len == 0 && !RECC(self) && self->itemListMutex.depth == 0)

/* ================================================================== ScopedRemover<EventDispatcher / EventQueue> (scopedremover.h:48-192): same contracts;
 * a record holds (event, handle) and must name the event the listener was registered for */
#define RECD(r) ((r)->itemList.wpos >= 0)
#define SRD_OK(r) (GH_OK && VOK((r)->itemList) && (r)->itemListMutex.depth == 0 && (RECD(r) ==> (g_ID.handle.p == g_H && g_H != NULL && g_created && (r)->dispatcher == g_att_ed && (r)->dispatcher != NULL && g_ID.event == g_att_ev)))
#define LOOP_CONTRACT_SRD_reset__loop0 \
  __CPROVER_assigns(__begin_L0.i, WGHOSTS) \
  __CPROVER_loop_invariant(0 <= __begin_L0.i && __begin_L0.i <= self->itemList.len) \
  __CPROVER_loop_invariant((RECD(self) && self->itemList.wpos < __begin_L0.i) ? (!g_att && g_removes_H == __CPROVER_loop_entry(g_removes_H) + 1) : (g_att == __CPROVER_loop_entry(g_att) && g_removes_H == __CPROVER_loop_entry(g_removes_H))) \
  __CPROVER_decreases(self->itemList.len - __begin_L0.i)
#define SRD_RESET_BODY \
  __CPROVER_requires(__CPROVER_is_fresh(self, sizeof(SRD)) && g_removes_H < 900 && SRD_OK(self)) \
  __CPROVER_assigns(self->itemList, self->itemListMutex.depth, WGHOSTS) \
  __CPROVER_ensures(VOK(self->itemList) && self->itemListMutex.depth == 0 && self->itemList.len == 0 && self->dispatcher == __CPROVER_old(self->dispatcher)) \
  __CPROVER_ensures(__CPROVER_old(self->itemList.wpos) >= 0 ? (!g_att && g_removes_H == __CPROVER_old(g_removes_H) + 1) : (g_att == __CPROVER_old(g_att) && g_removes_H == __CPROVER_old(g_removes_H)))
#define CONTRACT_SRD_reset SRD_RESET_BODY
#define CONTRACT_SRD_dtor SRD_RESET_BODY
#define CONTRACT_SRD_setDispatcher \
  __CPROVER_requires(__CPROVER_is_fresh(self, sizeof(SRD)) && GH_SMALL && __CPROVER_is_fresh(dispatcher_, sizeof(EDT)) && SRD_OK(self) && g_b0 == RECD(self)) \
  __CPROVER_assigns(self->itemList, self->itemListMutex.depth, self->dispatcher, WGHOSTS) \
  __CPROVER_ensures(SRD_OK(self) && self->dispatcher == dispatcher_) \
  __CPROVER_ensures((g_b0 && __CPROVER_old(self->dispatcher) != dispatcher_) ? (!g_att && !RECD(self)) : (g_att == __CPROVER_old(g_att) && RECD(self) == g_b0))
#define SRD_ADD_CONTRACT \
  __CPROVER_requires(__CPROVER_is_fresh(self, sizeof(SRD)) && GH_SMALL && __CPROVER_is_fresh(event, sizeof(int)) && __CPROVER_is_fresh(listener, sizeof(Callback)) && __CPROVER_is_fresh(self->dispatcher, sizeof(EDT)) && SRD_OK(self) && VSMALL(self->itemList) && g_b0 == RECD(self)) \
  __CPROVER_requires(RECD(self) ==> g_created) \
  __CPROVER_assigns(self->itemList, self->itemListMutex.depth, g_created, g_att, g_att_cl, g_att_ed, g_att_ev, g_ID) \
  __CPROVER_ensures(SRD_OK(self) && self->itemList.len == __CPROVER_old(self->itemList.len) + 1) \
  __CPROVER_ensures((__CPROVER_return_value.p == g_H && g_H != NULL) ==> (RECD(self) && g_att && g_att_ed == self->dispatcher && g_att_ev == *event)) \
  __CPROVER_ensures(g_b0 ==> RECD(self))
#define CONTRACT_SRD_appendListener__Callback SRD_ADD_CONTRACT
#define CONTRACT_SRD_prependListener__Callback SRD_ADD_CONTRACT
#define CONTRACT_SRD_insertListener__Callback \
  __CPROVER_requires(__CPROVER_is_fresh(before, sizeof(Handle))) \
  SRD_ADD_CONTRACT
#define CONTRACT_SRD_removeListener \
  __CPROVER_requires(__CPROVER_is_fresh(self, sizeof(SRD)) && GH_SMALL && __CPROVER_is_fresh(event, sizeof(int)) && __CPROVER_is_fresh(self->dispatcher, sizeof(EDT)) && SRD_OK(self) && g_b0 == RECD(self) && g_b1 == g_att) \
  __CPROVER_assigns(self->itemList, self->itemListMutex.depth, WGHOSTS) \
  __CPROVER_ensures(SRD_OK(self)) \
  __CPROVER_ensures((handle.p == g_H && g_H != NULL && g_b0 && g_b1 && *event == g_att_ev) ==> (__CPROVER_return_value && !g_att && !RECD(self))) \
  __CPROVER_ensures((handle.p == g_H && g_H != NULL && g_b0 && !g_b1) ==> (!__CPROVER_return_value && !g_att))      /* recorded but already detached elsewhere: reports false */ \
  __CPROVER_ensures(!(handle.p == g_H && g_H != NULL) ==> (g_att == g_b1 && RECD(self) == g_b0)) \
  __CPROVER_ensures(((handle.p == g_H && g_H != NULL) && !g_b0) ==> (g_att == g_b1 && g_removes_H == __CPROVER_old(g_removes_H) && !__CPROVER_return_value))
#define CONTRACT_SRD_ctor_move \
  __CPROVER_requires(__CPROVER_is_fresh(self, sizeof(SRD)) && GH_SMALL && __CPROVER_is_fresh(other, sizeof(SRD)) && SRD_OK(other) && g_b0 == RECD(other)) \
  __CPROVER_assigns(self->dispatcher, self->itemList, self->itemListMutex, other->itemList, other->itemListMutex.depth, WGHOSTS) \
  __CPROVER_ensures(SRD_OK(self) && SRD_OK(other) && self->dispatcher == __CPROVER_old(other->dispatcher)) \
  __CPROVER_ensures(RECD(self) == g_b0 && !RECD(other) && g_att == __CPROVER_old(g_att) && g_removes_H == __CPROVER_old(g_removes_H))
#define CONTRACT_SRD_assign_move \
  __CPROVER_requires(__CPROVER_is_fresh(self, sizeof(SRD)) && GH_SMALL && __CPROVER_is_fresh(other, sizeof(SRD)) && SRD_OK(self) && SRD_OK(other)) \
  __CPROVER_requires(!(RECD(self) && RECD(other)) && g_b0 == RECD(self) && g_b1 == RECD(other)) \
  __CPROVER_assigns(self->dispatcher, self->itemList, self->itemListMutex.depth, other->itemList, other->itemListMutex.depth, WGHOSTS) \
  __CPROVER_ensures(SRD_OK(self) && SRD_OK(other) && __CPROVER_return_value == self && self->dispatcher == __CPROVER_old(other->dispatcher)) \
  __CPROVER_ensures(g_b1 ==> (RECD(self) && g_att == __CPROVER_old(g_att))) \
  __CPROVER_ensures(g_b0 ==> (!g_att || RECD(self) || RECD(other))) \
  __CPROVER_ensures((!g_b0 && !g_b1) ==> g_att == __CPROVER_old(g_att))
#define CONTRACT_SRD_swap \
  __CPROVER_requires(__CPROVER_is_fresh(self, sizeof(SRD)) && __CPROVER_is_fresh(other, sizeof(SRD)) && SRD_OK(self) && SRD_OK(other) && !(RECD(self) && RECD(other))) \
  __CPROVER_requires(g_b0 == RECD(self) && g_b1 == RECD(other)) \
  __CPROVER_assigns(self->dispatcher, self->itemList, other->dispatcher, other->itemList) \
  __CPROVER_ensures(SRD_OK(self) && SRD_OK(other) && RECD(self) == g_b1 && RECD(other) == g_b0) \
  __CPROVER_ensures(self->dispatcher == __CPROVER_old(other->dispatcher) && other->dispatcher == __CPROVER_old(self->dispatcher))
#define CONTRACT_SRD_ctor \
  __CPROVER_requires(__CPROVER_is_fresh(self, sizeof(SRD))) \
  __CPROVER_assigns(__CPROVER_object_whole(self)) \
  __CPROVER_ensures(self->dispatcher == NULL && self->itemList.len == 0 && !RECD(self) && self->itemListMutex.depth == 0)
#define CONTRACT_SRD_ctor1 \
  __CPROVER_requires(__CPROVER_is_fresh(self, sizeof(SRD)) && __CPROVER_is_fresh(dispatcher, sizeof(EDT))) \
  __CPROVER_assigns(__CPROVER_object_whole(self)) \
  __CPROVER_ensures(self->dispatcher == dispatcher && self->itemList.len == 0 && !RECD(self) && self->itemListMutex.depth == 0)
