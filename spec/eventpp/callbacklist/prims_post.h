/* spec for unit "callbacklist": predicates, trusted environment contracts, contracts of the extracted functions */
extern unsigned long long g_next_rank;     /* prophecy: rank the next allocated node will receive */
extern unsigned long long g_T, g_lastCalledRank;   /* ghost state of one arbitrary invocation */
extern unsigned int g_c;
extern int g_W_calls;

#define LIVE(k) ((k)->counter != 0)

/* weak_ptr::lock(): null handle -> null; a live node is referenced by its list -> not expired;
 * a removed node may or may not still be referenced (by a running traversal or a stale link) -> either */
_Bool nondet_bool(void);
static inline Node *weak_lock(Handle *h)
{
  if (h->p == NULL) return NULL;
  if (LIVE(h->p)) return h->p;
  return nondet_bool() ? h->p : NULL;
}
static inline _Bool weak_expired(Handle *h) { return weak_lock(h) == NULL; }

/* ------------------------------------------------------------------ node-local invariant instances */
/* forward instance at k: reads k, k->next, L->tail */
static inline _Bool i_fwd(const CL *L, const Node *k)
{
  const Node *x = k->next;
  if (LIVE(k)) {
    if ((x == NULL) != (L->tail == k)) return 0;
    if (x != NULL) return LIVE(x) && x->previous == k && x->rank > k->rank;
    return 1;
  }
  if (x != NULL) return x->rank > k->rank && (LIVE(x) || x->remStamp > k->remStamp);
  return 1;
}
/* backward instance at k: reads k, k->previous, L->head */
static inline _Bool i_bwd(const CL *L, const Node *k)
{
  const Node *x = k->previous;
  if (LIVE(k)) {
    if ((x == NULL) != (L->head == k)) return 0;
    if (x != NULL) return LIVE(x) && x->next == k && x->rank < k->rank;
    return 1;
  }
  if (x != NULL) return x->rank < k->rank && (LIVE(x) || x->remStamp > k->remStamp);
  return 1;
}
static inline _Bool i_stamp(const Node *k)
{
  return k->rank > 0 && k->addStamp <= g_clock && (LIVE(k) || (k->remStamp <= g_clock && k->remStamp > k->addStamp));
}
#define I_FWD(L, k) i_fwd(L, k)
#define I_BWD(L, k) i_bwd(L, k)
#define I_STAMP(k) i_stamp(k)
static inline _Bool g_fwd(const Node *k)        /* forward instance as the traversal needs it (implied by I_FWD) */
{
  const Node *x = k->next;
  if (x == NULL) return 1;
  if (LIVE(k)) return LIVE(x) && x->rank > k->rank;
  return x->rank > k->rank && (LIVE(x) || x->remStamp > k->remStamp);
}
static inline _Bool j_gen(const Node *k)        /* generation rule: added after the invocation started <=> newer generation */
{ return !LIVE(k) || ((k->addStamp > g_T) == (k->counter > g_c)); }
static inline _Bool between(const Node *k, const Node *W)
{ return k->rank < W->rank && (k->next == NULL || W->rank < k->next->rank); }
static inline _Bool gap(const Node *k, const Node *W)   /* adjacency: nothing live hides between k and k->next, except newer nodes behind a removed k */
{ return !(LIVE(W) && between(k, W)) || (!LIVE(k) && W->addStamp > k->remStamp); }
static inline _Bool uniq(const Node *k, const Node *W) { return k == W || k->rank != W->rank; }
static inline _Bool wold(const Node *W) { return W->addStamp <= g_T; }       /* W was added before this invocation started */
static inline _Bool cursor_ok(const Node *c)
{ return (LIVE(c) || c->remStamp > g_T) && c->rank > g_lastCalledRank; }
static inline _Bool w_passed_ok(const Node *W) { return g_W_calls == 1 || (!LIVE(W) && g_W_calls == 0); }
static inline _Bool w_inv(const Node *c, const Node *W)
{
  if (!wold(W)) return g_W_calls == 0;                   /* added during the invocation: never called by it */
  if (W->rank < c->rank) return w_passed_ok(W);          /* already passed: called exactly once, or removed before its turn */
  return g_W_calls == 0;                                 /* still ahead */
}
static inline _Bool w_inv_end(const Node *W)
{
  if (!wold(W)) return g_W_calls == 0;
  return w_passed_ok(W);
}
static inline _Bool headgap(const CL *L, const Node *W)   /* no live node ranks below the head */
{ return !LIVE(W) || (L->head != NULL && L->head->rank <= W->rank); }
static inline _Bool i_cnt(const CL *L, const Node *k) { return !LIVE(k) || k->counter <= L->currentCounter; }
/* null-tolerant forms for enumerating instances over a window */
static inline _Bool gapn(const Node *x, const Node *w) { return x == NULL || w == NULL || gap(x, w); }
static inline _Bool uniqn(const Node *x, const Node *w) { return x == NULL || w == NULL || uniq(x, w); }
static inline _Bool headgapn(const CL *L, const Node *w) { return w == NULL || headgap(L, w); }
static inline _Bool i_cntn(const CL *L, const Node *w) { return w == NULL || i_cnt(L, w); }
static inline _Bool j_genn(const Node *w) { return w == NULL || j_gen(w); }
static inline _Bool rank_free(unsigned long long r, const Node *w) { return w == NULL || w->rank != r; }
/* witness-side instances for one witness w against up to three nodes whose `next` lies in the window */
#define W_INST(L, w, x1, x2, x3) (gapn(x1, w) && gapn(x2, w) && gapn(x3, w) && uniqn(x1, w) && uniqn(x2, w) && uniqn(x3, w) && headgapn(L, w) && i_cntn(L, w) && j_genn(w))
#define INV_TIME(L) (g_T <= g_clock && g_c <= (L)->currentCounter)

/* ------------------------------------------------------------------ window helpers (DESIGN 3.1, section 4 rules) */
#define FRESH_NODE(p)      __CPROVER_is_fresh(p, sizeof(Node))
#define NULL_OR_FRESH(p)   ((p) == NULL || FRESH_NODE(p))
#define PEQ(a, b)          __CPROVER_pointer_equals(a, b)
/* pointer-valued postcondition (a field havoc'd by a replaced contract needs pointer_equals to get a value set) */
#define PTR_IS(x, v)       (((v) == NULL) ? ((x) == NULL) : PEQ(x, v))
#define ALIAS4(p, a, b, c, d) ((p) == NULL || ((a) != NULL && PEQ(p, a)) || ((b) != NULL && PEQ(p, b)) || ((c) != NULL && PEQ(p, c)) || ((d) != NULL && PEQ(p, d)) || FRESH_NODE(p))
#define CLOCK_OK          (g_clock < 0xffffffffffff0000ull)
#define HELD(L)           ((L)->mutex.depth == 1)
#define UNLOCKED(L)       ((L)->mutex.depth == 0)
#define NOWRAP(L)         ((L)->currentCounter != 0xffffffffu)
#define INV_TIME(L)       (g_T <= g_clock && g_c <= (L)->currentCounter)
static inline _Bool i_hdr(const CL *L) { return (L->head == NULL) == (L->tail == NULL); }
#define I_HDR(L) i_hdr(L)

/* ------------------------------------------------------------------ forall-introduction over the unbounded heap
 * After an operation every invariant instance must hold again at ARBITRARY nodes.  An instance can only be
 * affected if it reads something the operation writes.  Each list operation is therefore verified three times
 * (same contract text, obligation mode selected with -D):
 *
 *   OB_S  (default) one-node instances I_FWD / I_BWD / I_STAMP at the footprint nodes and at an arbitrary OTHER
 *         node gK whose links are null, point to a window node (a, b, c, d) or point elsewhere.
 *   OB_W1 two-node instances gap(x, W), uniq(x, W), headgap(L, W), i_cnt(L, W), j_gen(W) for the footprint nodes x
 *         against an arbitrary witness gW (a window node or another node), and against the new node as witness.
 *   OB_W2 (adding operations) the arbitrary other node gK against the NEW node as witness: gap(gK, m), uniq(gK, m).
 *         For nodes outside the footprint gap(k, W) reads only k->rank, k->next->rank, k->remStamp, LIVE(k), LIVE(W),
 *         W->addStamp: it can change only when W becomes live, i.e. when W is the new node.
 *
 * The far-side instances of the footprint nodes themselves (e.g. the backward instance of the predecessor p of a
 * removed node) read nothing in the function's assigns clause, so they are preserved by the frame DFCC checks
 * (meta-argument; DFCC allows one pointer predicate per pointer lvalue, so gK cannot alias such a node). */
#if defined(OB_W1)
#define K_WIN(a, b, c, d) 1
#define K_VAL(L) 1
#define K_ENS(L) 1
#define W_WIN(a, b, c, d) (((a) != NULL && PEQ(gW, a)) || ((b) != NULL && PEQ(gW, b)) || ((c) != NULL && PEQ(gW, c)) || ((d) != NULL && PEQ(gW, d)) || FRESH_NODE(gW))
#define W1(e) (e)
#define W2(e) 1
#elif defined(OB_W2)
#define K_WIN(a, b, c, d) (FRESH_NODE(gK) && ALIAS4(gK->next, a, b, c, d) && ALIAS4(gK->previous, a, b, c, d))
#define K_VAL(L) (I_FWD(L, gK) && I_BWD(L, gK) && I_STAMP(gK))
#define K_ENS(L) (I_FWD(L, gK) && I_BWD(L, gK) && I_STAMP(gK))
#define W_WIN(a, b, c, d) 1
#define W1(e) 1
#define W2(e) (e)
#else
#define K_WIN(a, b, c, d) (FRESH_NODE(gK) && ALIAS4(gK->next, a, b, c, d) && ALIAS4(gK->previous, a, b, c, d))
#define K_VAL(L) (I_FWD(L, gK) && I_BWD(L, gK) && I_STAMP(gK))
#define K_ENS(L) (I_FWD(L, gK) && I_BWD(L, gK) && I_STAMP(gK))
#define W_WIN(a, b, c, d) 1
#define W1(e) 1
#define W2(e) 1
#endif
/* all witness-side instances for witness w against up to three nodes x whose `next` lies in the window */
#define W_INST(L, w, x1, x2, x3) (gapn(x1, w) && gapn(x2, w) && gapn(x3, w) && uniqn(x1, w) && uniqn(x2, w) && uniqn(x3, w) && headgapn(L, w) && i_cntn(L, w) && j_genn(w))
#define NUL ((Node *)0)

/* field-write hook: every store to Node::counter goes through this (extract/units.py field_hooks);
 * marking a node removed stamps it with the ghost clock */
/* C03, critical-section discipline (obligations with -DOB_CS): the operations that change the list (append, prepend,
 * insert, remove) and ownsHandle read the liveness mark of a node - the decision variable for "is this callback
 * still in the list" - only with the list mutex held.  Their whole effect on shared state then happens inside ONE
 * critical section of the one mutex, which is their linearisation point: the sequential contracts proved for C01 / C02
 * describe the state at that point, whatever other threads did before.  ghost g_cs_reads counts reads made without
 * the mutex; g_cs_mutex is the list's mutex (bound by the obligation's requires). */
extern int g_cs_reads; extern Mutex *g_cs_mutex;
#ifdef OB_CS
static inline unsigned int node_get_counter(unsigned int *p) { if (g_cs_mutex->depth == 0) g_cs_reads++; return *p; }
#define NODE_GET_counter(p) node_get_counter(p)
#define CS_REQ __CPROVER_requires(__CPROVER_pointer_equals(g_cs_mutex, &self->mutex) && g_cs_reads == 0)
#define CS_FRAME g_cs_reads
#define CS_POST __CPROVER_ensures(g_cs_reads == 0)      /* no liveness test was made outside the critical section */
#else
#define NODE_GET_counter(p) (*(p))
#define CS_REQ
#define CS_FRAME
#define CS_POST
#endif
#define NODE_SET_counter(n, v) ((n)->counter = (v), ((n)->counter == 0 ? ((n)->remStamp = ++g_clock) : 0ull), (n)->counter)

/* ================================================================== trusted environment: allocation
 * std::make_shared<Node> = this allocation + the extracted Node constructor.  The fresh node receives the
 * prophecy rank g_next_rank (constrained by the caller's precondition, renumbering lemma DESIGN 3.2) and the
 * next ghost-clock value as its addStamp. */
/* exception mode (-DMODE_EXC, C09): allocation of the node and the copy of the user's callback into it may raise; the
 * adding operations then leave the list exactly as it was (strong guarantee), with the mutex released */
extern int g_exc;
#ifdef MODE_EXC
#define EXC_OR g_exc ||
#define EXC_FRAME g_exc
static inline void exc_maybe(void) { if (!g_exc && nondet_bool()) g_exc = 1; }
#undef CALLBACK_COPY
#define CALLBACK_COPY(p) ({ exc_maybe(); *(p); })
#define EXC_ALLOC_ASSIGNS __CPROVER_assigns(g_exc)
#define EXC_STRONG(x) __CPROVER_ensures(g_exc ==> (UNLOCKED(self) && (x)))      /* the list is exactly as it was */
#define EXC_REQ __CPROVER_requires(!g_exc)
#else
#define EXC_STRONG(x)
#define EXC_REQ
#define EXC_OR
#define EXC_FRAME
#define EXC_ALLOC_ASSIGNS
#endif
#define CONTRACT_Node_alloc \
  EXC_ALLOC_ASSIGNS \
  __CPROVER_requires(CLOCK_OK && g_next_rank > 0) \
  __CPROVER_assigns(g_clock) \
  __CPROVER_ensures(FRESH_NODE(__CPROVER_return_value)) \
  __CPROVER_ensures(g_clock == __CPROVER_old(g_clock) + 1) \
  __CPROVER_ensures(__CPROVER_return_value->rank == g_next_rank && __CPROVER_return_value->addStamp == g_clock)

/* ================================================================== getNextCounter (callbacklist.h:423)
 * epoch-internal contract (no wrap at this call); the wrap-around case is C19's obligation set (-DOB_WRAP) */
#ifdef OB_WRAP_USE
/* callers proved ACROSS a wrap-around (C19): what the -DOB_WRAP obligations establish for getNextCounter as a whole */
#define CONTRACT_CL_getNextCounter \
  __CPROVER_requires(__CPROVER_is_fresh(self, sizeof(CL)) && UNLOCKED(self)) \
  __CPROVER_assigns(self->currentCounter) \
  __CPROVER_ensures(__CPROVER_return_value != 0 && __CPROVER_return_value == self->currentCounter) \
  __CPROVER_ensures(__CPROVER_old(self->currentCounter) == 0xffffffffu ? self->currentCounter == 1 : self->currentCounter == __CPROVER_old(self->currentCounter) + 1)
#elif !defined(OB_WRAP)
#define CONTRACT_CL_getNextCounter \
  __CPROVER_requires(__CPROVER_is_fresh(self, sizeof(CL)) && NOWRAP(self)) \
  __CPROVER_requires(UNLOCKED(self))   /* on wrap-around it locks the list mutex itself (std::mutex is not recursive): never call it with the mutex held */ \
  __CPROVER_assigns(self->currentCounter) \
  __CPROVER_ensures(__CPROVER_return_value == self->currentCounter && self->currentCounter == __CPROVER_old(self->currentCounter) + 1) \
  __CPROVER_ensures(__CPROVER_return_value != 0)
#endif

/* ================================================================== doFreeNode (callbacklist.h:386)
 * window: n = *node, p = n->previous, s = n->next, h = head
 * pre : mutex held, n is a LIVE node of this list (instances at n)
 * post: exact link surgery; n marked removed and stamped, its own links kept (stale); instances again */
#define FN_N (*node)
#define FN_P ((*node)->previous)
#define FN_S ((*node)->next)
#define CONTRACT_CL_doFreeNode \
  __CPROVER_requires(__CPROVER_is_fresh(self, sizeof(CL)) && __CPROVER_is_fresh(node, sizeof(Node *)) && FRESH_NODE(FN_N)) \
  __CPROVER_requires(NULL_OR_FRESH(FN_P) && NULL_OR_FRESH(FN_S)) \
  __CPROVER_requires((FN_P != NULL ==> PEQ(FN_P->next, FN_N)) && (FN_S != NULL ==> PEQ(FN_S->previous, FN_N)))  /* back pointers by pointer_equals (value sets) */ \
  __CPROVER_requires(PEQ(self->head, FN_N) || (FN_P != NULL && PEQ(self->head, FN_P)) || FRESH_NODE(self->head)) \
  __CPROVER_requires(K_WIN(FN_N, FN_P, FN_S, self->head) && W_WIN(FN_N, FN_P, FN_S, self->head)) \
  __CPROVER_requires(HELD(self) && CLOCK_OK && K_VAL(self)) \
  __CPROVER_requires(LIVE(FN_N) && I_FWD(self, FN_N) && I_BWD(self, FN_N) && I_STAMP(FN_N)) \
  __CPROVER_requires(FN_P != NULL ==> (I_FWD(self, FN_P) && I_STAMP(FN_P))) \
  __CPROVER_requires(FN_S != NULL ==> (I_BWD(self, FN_S) && I_STAMP(FN_S))) \
  __CPROVER_requires(W1(I_STAMP(gW) && W_INST(self, gW, FN_N, FN_P, NUL))) \
  __CPROVER_assigns(FN_N->counter, FN_N->remStamp, g_clock) \
  __CPROVER_assigns(self->head == FN_N: self->head) \
  __CPROVER_assigns(self->tail == FN_N: self->tail) \
  __CPROVER_assigns(FN_S != NULL: FN_S->previous) \
  __CPROVER_assigns(FN_P != NULL: FN_P->next) \
  __CPROVER_ensures(!LIVE(FN_N) && FN_N->remStamp == g_clock && g_clock == __CPROVER_old(g_clock) + 1) \
  __CPROVER_ensures(FN_S == __CPROVER_old(FN_S) && FN_P == __CPROVER_old(FN_P)) \
  __CPROVER_ensures(FN_P != NULL ==> PTR_IS(FN_P->next, FN_S)) \
  __CPROVER_ensures(FN_S != NULL ==> PTR_IS(FN_S->previous, FN_P)) \
  __CPROVER_ensures(__CPROVER_old(self->head) == FN_N ? PTR_IS(self->head, FN_S) : self->head == __CPROVER_old(self->head)) \
  __CPROVER_ensures(__CPROVER_old(self->tail) == FN_N ? PTR_IS(self->tail, FN_P) : self->tail == __CPROVER_old(self->tail)) \
  __CPROVER_ensures(HELD(self)) \
  __CPROVER_ensures(I_FWD(self, FN_N) && I_BWD(self, FN_N) && I_STAMP(FN_N)) \
  __CPROVER_ensures(FN_P != NULL ==> I_FWD(self, FN_P)) \
  __CPROVER_ensures(FN_S != NULL ==> I_BWD(self, FN_S)) \
  __CPROVER_ensures(K_ENS(self)) \
  __CPROVER_ensures(W1(W_INST(self, gW, FN_N, FN_P, NUL)))

/* ================================================================== remove (callbacklist.h:228)
 * statement (C01/C02): returns true EXACTLY when it took a callback out of the list; through the handle of an
 * already removed (but still referenced) callback it is inert: returns false and changes nothing. */
#define RM_N (handle->p)
#define RM_LIVE (RM_N != NULL && LIVE(RM_N))
#define CONTRACT_CL_remove \
  __CPROVER_requires(__CPROVER_is_fresh(self, sizeof(CL)) && __CPROVER_is_fresh(handle, sizeof(Handle)) && NULL_OR_FRESH(RM_N)) \
  __CPROVER_requires(RM_N != NULL ==> (NULL_OR_FRESH(RM_N->previous) && NULL_OR_FRESH(RM_N->next))) \
  __CPROVER_requires((RM_N != NULL && RM_N->previous != NULL) ==> (PEQ(RM_N->previous->next, RM_N) || NULL_OR_FRESH(RM_N->previous->next))) \
  __CPROVER_requires((RM_N != NULL && RM_N->next != NULL) ==> (PEQ(RM_N->next->previous, RM_N) || NULL_OR_FRESH(RM_N->next->previous))) \
  __CPROVER_requires(RM_N != NULL ==> (PEQ(self->head, RM_N) || (RM_N->previous != NULL && PEQ(self->head, RM_N->previous)) || self->head == NULL || FRESH_NODE(self->head))) \
  __CPROVER_requires(RM_N != NULL ==> (K_WIN(RM_N, RM_N->previous, RM_N->next, self->head) && W_WIN(RM_N, RM_N->previous, RM_N->next, self->head))) \
  __CPROVER_requires(UNLOCKED(self) && CLOCK_OK) \
  __CPROVER_requires(g_b0 == RM_LIVE)   /* snapshot: the handle refers to a callback that is in the list */ \
  __CPROVER_requires(RM_N != NULL ==> (K_VAL(self) && I_FWD(self, RM_N) && I_BWD(self, RM_N) && I_STAMP(RM_N) && headgap(self, RM_N))) \
  __CPROVER_requires((RM_LIVE && RM_N->previous != NULL) ==> (I_FWD(self, RM_N->previous) && I_STAMP(RM_N->previous))) \
  __CPROVER_requires((RM_LIVE && RM_N->next != NULL) ==> (I_BWD(self, RM_N->next) && I_STAMP(RM_N->next))) \
  __CPROVER_requires(W1(RM_N != NULL ==> I_STAMP(gW))) \
  __CPROVER_requires(W1(RM_LIVE ==> W_INST(self, gW, RM_N, RM_N->previous, NUL))) \
  CS_REQ __CPROVER_assigns(CS_FRAME) CS_POST \
  __CPROVER_assigns(self->mutex.depth) \
  __CPROVER_assigns(RM_LIVE: RM_N->counter, RM_N->remStamp, g_clock) \
  __CPROVER_assigns(RM_LIVE && self->head == RM_N: self->head) \
  __CPROVER_assigns(RM_LIVE && self->tail == RM_N: self->tail) \
  __CPROVER_assigns(RM_LIVE && RM_N->next != NULL: RM_N->next->previous) \
  __CPROVER_assigns(RM_LIVE && RM_N->previous != NULL: RM_N->previous->next) \
  __CPROVER_ensures(__CPROVER_return_value == g_b0) \
  __CPROVER_ensures(UNLOCKED(self)) \
  __CPROVER_ensures(RM_N != NULL ==> (!LIVE(RM_N) && RM_N->next == __CPROVER_old(RM_N->next) && RM_N->previous == __CPROVER_old(RM_N->previous))) \
  __CPROVER_ensures(__CPROVER_return_value ==> (RM_N->remStamp == g_clock && g_clock == __CPROVER_old(g_clock) + 1)) \
  __CPROVER_ensures((__CPROVER_return_value && RM_N->previous != NULL) ==> RM_N->previous->next == RM_N->next) \
  __CPROVER_ensures((__CPROVER_return_value && RM_N->next != NULL) ==> RM_N->next->previous == RM_N->previous) \
  __CPROVER_ensures(__CPROVER_return_value ==> self->head == (__CPROVER_old(self->head) == RM_N ? RM_N->next : __CPROVER_old(self->head))) \
  __CPROVER_ensures(__CPROVER_return_value ==> self->tail == (__CPROVER_old(self->tail) == RM_N ? RM_N->previous : __CPROVER_old(self->tail))) \
  __CPROVER_ensures(RM_N != NULL ==> (I_FWD(self, RM_N) && I_BWD(self, RM_N) && I_STAMP(RM_N))) \
  __CPROVER_ensures((g_b0 && RM_N->previous != NULL) ==> I_FWD(self, RM_N->previous)) \
  __CPROVER_ensures((g_b0 && RM_N->next != NULL) ==> I_BWD(self, RM_N->next)) \
  __CPROVER_ensures(RM_N != NULL ==> K_ENS(self)) \
  __CPROVER_ensures(W1(g_b0 ==> W_INST(self, gW, RM_N, RM_N->previous, NUL)))

/* ================================================================== append (callbacklist.h:171) / doAppend
 * statement: the new callback goes to the back.  window: t = old tail (null or a node), h = head.
 * prophecy : the fresh node's rank is above the old tail's and differs from every rank it is compared with. */
#define AP_T (self->tail)
#define AP_M (__CPROVER_return_value.p)
#define CONTRACT_CL_append \
  __CPROVER_requires(__CPROVER_is_fresh(self, sizeof(CL)) && __CPROVER_is_fresh(callback, sizeof(Callback)) && NULL_OR_FRESH(AP_T)) \
  __CPROVER_requires(self->head == NULL || (AP_T != NULL && PEQ(self->head, AP_T)) || FRESH_NODE(self->head)) \
  __CPROVER_requires(K_WIN(AP_T, self->head, NUL, NUL) && W_WIN(AP_T, self->head, NUL, NUL)) \
  __CPROVER_requires(UNLOCKED(self) && CLOCK_OK && NOWRAP(self) && I_HDR(self) && K_VAL(self)) \
  __CPROVER_requires(AP_T != NULL ==> (LIVE(AP_T) && I_FWD(self, AP_T) && I_STAMP(AP_T) && g_next_rank > AP_T->rank)) \
  __CPROVER_requires(g_u0 == (unsigned long long)(AP_T != NULL) && g_next_rank > 0 && rank_free(g_next_rank, self->head)) \
  __CPROVER_requires(W1(I_STAMP(gW) && INV_TIME(self) && W_INST(self, gW, AP_T, NUL, NUL) && W_INST(self, AP_T, AP_T, NUL, NUL) && rank_free(g_next_rank, gW))) \
  __CPROVER_requires(W2(INV_TIME(self) && W_INST(self, gK, AP_T, NUL, NUL) && W_INST(self, gK->next, AP_T, NUL, NUL) && W_INST(self, AP_T, gK, NUL, NUL) && rank_free(g_next_rank, gK) && rank_free(g_next_rank, gK->next))) \
  EXC_REQ CS_REQ __CPROVER_assigns(EXC_FRAME) __CPROVER_assigns(CS_FRAME) CS_POST \
  __CPROVER_assigns(self->mutex.depth, self->currentCounter, g_clock, self->tail) \
  __CPROVER_assigns(AP_T == NULL: self->head) \
  __CPROVER_assigns(AP_T != NULL: AP_T->next) \
  __CPROVER_ensures(EXC_OR (FRESH_NODE(AP_M)))                                             /* a new node, shared with nothing */ \
  __CPROVER_ensures(EXC_OR (UNLOCKED(self) && I_HDR(self))) \
  __CPROVER_ensures(EXC_OR (PEQ(self->tail, AP_M) && AP_M->next == NULL)) \
  __CPROVER_ensures(EXC_OR (PTR_IS(AP_M->previous, __CPROVER_old(self->tail)))) \
  __CPROVER_ensures(EXC_OR (g_u0 ? (PEQ(AP_M->previous->next, AP_M) && self->head == __CPROVER_old(self->head)) : PEQ(self->head, AP_M))) \
  __CPROVER_ensures(EXC_OR (AP_M->callback.id == callback->id)) \
  __CPROVER_ensures(EXC_OR (AP_M->counter == self->currentCounter && self->currentCounter == __CPROVER_old(self->currentCounter) + 1)) \
  __CPROVER_ensures(EXC_OR (AP_M->rank == g_next_rank && AP_M->addStamp == g_clock && g_clock == __CPROVER_old(g_clock) + 1)) \
  __CPROVER_ensures(EXC_OR (I_FWD(self, AP_M) && I_BWD(self, AP_M) && I_STAMP(AP_M))) \
  __CPROVER_ensures(EXC_OR (g_u0 ==> I_FWD(self, AP_M->previous))) \
  __CPROVER_ensures(EXC_OR (K_ENS(self))) \
  __CPROVER_ensures(EXC_OR (W1(W_INST(self, gW, AP_M->previous, AP_M, NUL) && W_INST(self, AP_M, AP_M->previous, AP_M, NUL) && W_INST(self, AP_M->previous, AP_M->previous, AP_M, NUL)))) \
  __CPROVER_ensures(EXC_OR (W2(W_INST(self, AP_M, gK, NUL, NUL) && W_INST(self, gK, AP_M->previous, AP_M, gK)))) \
  EXC_STRONG(self->tail == __CPROVER_old(self->tail) && self->head == __CPROVER_old(self->head) && (self->tail != NULL ==> self->tail->next == NULL))

/* ================================================================== prepend (callbacklist.h:190): mirror image */
#define PP_H (self->head)
#define CONTRACT_CL_prepend \
  __CPROVER_requires(__CPROVER_is_fresh(self, sizeof(CL)) && __CPROVER_is_fresh(callback, sizeof(Callback)) && NULL_OR_FRESH(PP_H)) \
  __CPROVER_requires(self->tail == NULL || (PP_H != NULL && PEQ(self->tail, PP_H)) || FRESH_NODE(self->tail)) \
  __CPROVER_requires(K_WIN(PP_H, self->tail, NUL, NUL) && W_WIN(PP_H, self->tail, NUL, NUL)) \
  __CPROVER_requires(UNLOCKED(self) && CLOCK_OK && NOWRAP(self) && I_HDR(self) && K_VAL(self)) \
  __CPROVER_requires(PP_H != NULL ==> (LIVE(PP_H) && I_BWD(self, PP_H) && I_STAMP(PP_H) && g_next_rank < PP_H->rank)) \
  __CPROVER_requires(g_u0 == (unsigned long long)(PP_H != NULL) && g_next_rank > 0 && rank_free(g_next_rank, self->tail)) \
  __CPROVER_requires(W1(I_STAMP(gW) && INV_TIME(self) && W_INST(self, gW, NUL, NUL, NUL) && W_INST(self, PP_H, NUL, NUL, NUL) && rank_free(g_next_rank, gW))) \
  __CPROVER_requires(W2(INV_TIME(self) && W_INST(self, gK, gK, NUL, NUL) && W_INST(self, gK->next, gK, NUL, NUL) && W_INST(self, PP_H, gK, NUL, NUL) && rank_free(g_next_rank, gK) && rank_free(g_next_rank, gK->next))) \
  EXC_REQ CS_REQ __CPROVER_assigns(EXC_FRAME) __CPROVER_assigns(CS_FRAME) CS_POST \
  __CPROVER_assigns(self->mutex.depth, self->currentCounter, g_clock, self->head) \
  __CPROVER_assigns(PP_H == NULL: self->tail) \
  __CPROVER_assigns(PP_H != NULL: PP_H->previous) \
  __CPROVER_ensures(EXC_OR (FRESH_NODE(AP_M))) \
  __CPROVER_ensures(EXC_OR (UNLOCKED(self) && I_HDR(self))) \
  __CPROVER_ensures(EXC_OR (PEQ(self->head, AP_M) && AP_M->previous == NULL)) \
  __CPROVER_ensures(EXC_OR (PTR_IS(AP_M->next, __CPROVER_old(self->head)))) \
  __CPROVER_ensures(EXC_OR (g_u0 ? (PEQ(AP_M->next->previous, AP_M) && self->tail == __CPROVER_old(self->tail)) : PEQ(self->tail, AP_M))) \
  __CPROVER_ensures(EXC_OR (AP_M->callback.id == callback->id)) \
  __CPROVER_ensures(EXC_OR (AP_M->counter == self->currentCounter && self->currentCounter == __CPROVER_old(self->currentCounter) + 1)) \
  __CPROVER_ensures(EXC_OR (AP_M->rank == g_next_rank && AP_M->addStamp == g_clock && g_clock == __CPROVER_old(g_clock) + 1)) \
  __CPROVER_ensures(EXC_OR (I_FWD(self, AP_M) && I_BWD(self, AP_M) && I_STAMP(AP_M))) \
  __CPROVER_ensures(EXC_OR (g_u0 ==> I_BWD(self, AP_M->next))) \
  __CPROVER_ensures(EXC_OR (K_ENS(self))) \
  __CPROVER_ensures(EXC_OR (W1(W_INST(self, gW, AP_M, NUL, NUL) && W_INST(self, AP_M, AP_M, NUL, NUL) && W_INST(self, AP_M->next, AP_M, NUL, NUL)))) \
  __CPROVER_ensures(EXC_OR (W2(W_INST(self, AP_M, gK, NUL, NUL) && W_INST(self, gK, AP_M, gK, NUL)))) \
  EXC_STRONG(self->tail == __CPROVER_old(self->tail) && self->head == __CPROVER_old(self->head) && (self->head != NULL ==> self->head->previous == NULL))

/* ================================================================== doInsert (callbacklist.h:367)
 * window: m = *node (new, unlinked), b = *beforeNode (LIVE node of this list), bp = b->previous, h = head */
#define DI_M (*node)
#define DI_B (*beforeNode)
#define DI_P ((*beforeNode)->previous)
#define CONTRACT_CL_doInsert \
  __CPROVER_requires(__CPROVER_is_fresh(self, sizeof(CL)) && __CPROVER_is_fresh(node, sizeof(Node *)) && __CPROVER_is_fresh(beforeNode, sizeof(Node *))) \
  __CPROVER_requires(FRESH_NODE(DI_M) && FRESH_NODE(DI_B) && NULL_OR_FRESH(DI_P)) \
  __CPROVER_requires(DI_P != NULL ==> PEQ(DI_P->next, DI_B)) \
  __CPROVER_requires(PEQ(self->head, DI_B) || (DI_P != NULL && PEQ(self->head, DI_P)) || FRESH_NODE(self->head)) \
  __CPROVER_requires(K_WIN(DI_B, DI_P, self->head, NUL) && W_WIN(DI_B, DI_P, DI_M, self->head)) \
  __CPROVER_requires(HELD(self) && DI_M->previous == NULL && DI_M->next == NULL && LIVE(DI_M) && I_STAMP(DI_M) && K_VAL(self)) \
  __CPROVER_requires(self->tail != DI_M && self->head != DI_M)      /* m is not linked yet */ \
  __CPROVER_requires(LIVE(DI_B) && I_BWD(self, DI_B) && I_STAMP(DI_B) && DI_M->rank < DI_B->rank) \
  __CPROVER_requires(DI_P != NULL ==> (I_FWD(self, DI_P) && DI_P->rank < DI_M->rank)) \
  __CPROVER_requires(g_u1 == (unsigned long long)(DI_P != NULL)) \
  __CPROVER_requires(W1(I_STAMP(gW) && INV_TIME(self) && W_INST(self, gW, DI_P, NUL, NUL) && W_INST(self, DI_B, DI_P, NUL, NUL) && W_INST(self, DI_P, DI_P, NUL, NUL) && \
                        uniq(DI_M, gW) && uniq(DI_M, self->head) && j_gen(DI_M) && i_cnt(self, DI_M))) \
  __CPROVER_requires(W2(INV_TIME(self) && W_INST(self, gK, DI_P, gK, NUL) && W_INST(self, gK->next, DI_P, gK, NUL) && W_INST(self, DI_B, DI_P, gK, NUL) && W_INST(self, DI_P, DI_P, gK, NUL) && \
                        uniq(DI_M, gK) && uniqn(DI_M, gK->next) && uniq(DI_M, self->head) && j_gen(DI_M) && i_cnt(self, DI_M) && (!LIVE(gK) ==> DI_M->addStamp > gK->remStamp))) \
  __CPROVER_assigns(DI_M->previous, DI_M->next, DI_B->previous) \
  __CPROVER_assigns(self->head == DI_B: self->head) \
  __CPROVER_assigns(DI_P != NULL: DI_P->next) \
  __CPROVER_ensures(PEQ(DI_M->next, DI_B) && PEQ(DI_B->previous, DI_M) && PTR_IS(DI_M->previous, __CPROVER_old(DI_B->previous))) \
  __CPROVER_ensures(g_u1 ? (PEQ(DI_M->previous->next, DI_M) && self->head == __CPROVER_old(self->head)) : PEQ(self->head, DI_M)) \
  __CPROVER_ensures(HELD(self) && I_FWD(self, DI_M) && I_BWD(self, DI_M) && I_BWD(self, DI_B)) \
  __CPROVER_ensures(g_u1 ==> I_FWD(self, DI_M->previous)) \
  __CPROVER_ensures(K_ENS(self)) \
  __CPROVER_ensures(W1(W_INST(self, gW, DI_M->previous, DI_M, NUL) && W_INST(self, DI_M, DI_M->previous, DI_M, NUL) && W_INST(self, DI_B, DI_M->previous, DI_M, NUL) && W_INST(self, DI_M->previous, DI_M->previous, DI_M, NUL))) \
  __CPROVER_ensures(W2(W_INST(self, DI_M, gK, NUL, NUL) && W_INST(self, gK, DI_M->previous, DI_M, gK)))

/* ================================================================== insert (callbacklist.h:209)
 * statement: immediately before the referenced callback, or at the back when that callback is no longer in the
 * list (handle empty, expired, or referring to a removed but still referenced callback).
 * window: b = before->p, bp = b->previous, t = tail (null, b, or another node), h = head */
#define IN_B (before->p)
#define IN_P (before->p->previous)
#define IN_LIVE (IN_B != NULL && LIVE(IN_B))
#define IN_PN (IN_B != NULL ? IN_P : NUL)
#define CONTRACT_CL_insert \
  __CPROVER_requires(__CPROVER_is_fresh(self, sizeof(CL)) && __CPROVER_is_fresh(callback, sizeof(Callback)) && __CPROVER_is_fresh(before, sizeof(Handle))) \
  __CPROVER_requires(NULL_OR_FRESH(IN_B) && (IN_B != NULL ==> NULL_OR_FRESH(IN_P))) \
  __CPROVER_requires((IN_B != NULL && IN_P != NULL) ==> (PEQ(IN_P->next, IN_B) || NULL_OR_FRESH(IN_P->next))) \
  __CPROVER_requires(self->tail == NULL || (IN_B != NULL && PEQ(self->tail, IN_B)) || FRESH_NODE(self->tail)) \
  __CPROVER_requires(self->head == NULL || (IN_B != NULL && PEQ(self->head, IN_B)) || (IN_B != NULL && IN_P != NULL && PEQ(self->head, IN_P)) || PEQ(self->head, self->tail) || FRESH_NODE(self->head)) \
  __CPROVER_requires(K_WIN(self->tail, IN_B, IN_PN, self->head) && W_WIN(self->tail, IN_B, IN_PN, self->head)) \
  __CPROVER_requires(UNLOCKED(self) && CLOCK_OK && NOWRAP(self) && I_HDR(self) && K_VAL(self)) \
  __CPROVER_requires(g_b0 == IN_LIVE && g_next_rank > 0 && rank_free(g_next_rank, self->head)) \
  __CPROVER_requires(IN_B != NULL ==> (I_BWD(self, IN_B) && I_STAMP(IN_B) && headgap(self, IN_B))) \
  __CPROVER_requires((IN_LIVE && IN_P != NULL) ==> (I_FWD(self, IN_P) && I_STAMP(IN_P))) \
  __CPROVER_requires(self->tail != NULL ==> (LIVE(self->tail) && I_FWD(self, self->tail) && I_STAMP(self->tail))) \
  __CPROVER_requires(IN_LIVE ? (g_next_rank < IN_B->rank && (IN_P != NULL ==> IN_P->rank < g_next_rank)) \
                             : (self->tail != NULL ==> g_next_rank > self->tail->rank)) \
  __CPROVER_requires(g_u0 == (unsigned long long)(self->tail != NULL) && g_u1 == (unsigned long long)(IN_LIVE && IN_P != NULL)) \
  __CPROVER_requires(W1(I_STAMP(gW) && INV_TIME(self) && rank_free(g_next_rank, gW))) \
  __CPROVER_requires(W1(IN_LIVE ? (W_INST(self, gW, IN_P, NUL, NUL) && W_INST(self, IN_B, IN_P, NUL, NUL) && W_INST(self, IN_P, IN_P, NUL, NUL)) \
                                : (W_INST(self, gW, self->tail, NUL, NUL) && W_INST(self, self->tail, self->tail, NUL, NUL)))) \
  __CPROVER_requires(W2(INV_TIME(self) && rank_free(g_next_rank, gK) && rank_free(g_next_rank, gK->next))) \
  __CPROVER_requires(W2(IN_LIVE ? (W_INST(self, gK, IN_P, gK, NUL) && W_INST(self, gK->next, IN_P, gK, NUL) && W_INST(self, IN_B, IN_P, gK, NUL) && W_INST(self, IN_P, IN_P, gK, NUL)) \
                                : (W_INST(self, gK, self->tail, NUL, NUL) && W_INST(self, gK->next, self->tail, NUL, NUL) && W_INST(self, self->tail, gK, NUL, NUL)))) \
  EXC_REQ CS_REQ __CPROVER_assigns(EXC_FRAME) __CPROVER_assigns(CS_FRAME) CS_POST \
  __CPROVER_assigns(self->mutex.depth, self->currentCounter, g_clock) \
  __CPROVER_assigns(IN_LIVE: IN_B->previous) \
  __CPROVER_assigns(IN_LIVE && self->head == IN_B: self->head) \
  __CPROVER_assigns(IN_LIVE && IN_P != NULL: IN_P->next) \
  __CPROVER_assigns(!IN_LIVE: self->tail) \
  __CPROVER_assigns(!IN_LIVE && self->tail == NULL: self->head) \
  __CPROVER_assigns(!IN_LIVE && self->tail != NULL: self->tail->next) \
  __CPROVER_ensures(EXC_OR (FRESH_NODE(AP_M))) \
  __CPROVER_ensures(EXC_OR (UNLOCKED(self) && I_HDR(self))) \
  __CPROVER_ensures(EXC_OR (AP_M->callback.id == callback->id && LIVE(AP_M) && AP_M->rank == g_next_rank)) \
  __CPROVER_ensures(EXC_OR (g_b0 ==> (AP_M->next == IN_B && IN_B->previous == AP_M))) \
  __CPROVER_ensures(EXC_OR (g_b0 ==> (g_u1 ? (AP_M->previous->next == AP_M && self->head == __CPROVER_old(self->head)) : (AP_M->previous == NULL && self->head == AP_M)))) \
  __CPROVER_ensures(EXC_OR (g_b0 ==> self->tail == __CPROVER_old(self->tail))) \
  __CPROVER_ensures(EXC_OR (!g_b0 ==> (self->tail == AP_M && AP_M->next == NULL && AP_M->previous == __CPROVER_old(self->tail)))) \
  __CPROVER_ensures(EXC_OR (!g_b0 ==> (g_u0 ? (AP_M->previous->next == AP_M && self->head == __CPROVER_old(self->head)) : self->head == AP_M))) \
  __CPROVER_ensures(EXC_OR (I_FWD(self, AP_M) && I_BWD(self, AP_M) && I_STAMP(AP_M))) \
  __CPROVER_ensures(EXC_OR (IN_B != NULL ==> I_BWD(self, IN_B))) \
  __CPROVER_ensures(EXC_OR (K_ENS(self))) \
  __CPROVER_ensures(EXC_OR (W1(W_INST(self, gW, AP_M->previous, AP_M, NUL) && W_INST(self, AP_M, AP_M->previous, AP_M, NUL)))) \
  __CPROVER_ensures(EXC_OR (W2(W_INST(self, AP_M, gK, NUL, NUL) && W_INST(self, gK, AP_M->previous, AP_M, gK)))) \
  EXC_STRONG(self->tail == __CPROVER_old(self->tail) && self->head == __CPROVER_old(self->head))

/* ================================================================== empty (callbacklist.h:158) */
#define CONTRACT_CL_empty \
  __CPROVER_requires(__CPROVER_is_fresh(self, sizeof(CL))) \
  __CPROVER_assigns() \
  __CPROVER_ensures(__CPROVER_return_value == (self->head == NULL))

/* ================================================================== invocation (doForEachIf, callbacklist.h:326) -- C01 / C02
 * ghost state of ONE ARBITRARY invocation: g_T = ghost clock when it started, g_c = generation counter it captured,
 * g_lastCalledRank = rank of the last callback it passed to user code, g_W_calls = how often it called the witness gW.
 * "In list order" and "at most once" are PRECONDITIONS of the environment stub (checked at its call site). */
#define TRV_C (*node)
/* G instances at the cursor (forall-elimination of the global invariant) + loop invariant */
#define TRV_REQ_NONNULL \
   (FRESH_NODE(TRV_C) && (PEQ(gW, TRV_C) || FRESH_NODE(gW)) && (TRV_C->next == NULL || PEQ(TRV_C->next, gW) || FRESH_NODE(TRV_C->next)) && \
    g_fwd(TRV_C) && j_gen(TRV_C) && j_gen(gW) && gap(TRV_C, gW) && uniq(TRV_C, gW) && (TRV_C->next != NULL ==> uniq(TRV_C->next, gW)) && \
    I_STAMP(TRV_C) && I_STAMP(gW) && (TRV_C->next != NULL ==> I_STAMP(TRV_C->next)) && \
    cursor_ok(TRV_C) && w_inv(TRV_C, gW))
#define TRV_BODY_CONTRACT \
  __CPROVER_requires(__CPROVER_is_fresh(self, sizeof(CL)) && __CPROVER_is_fresh(f, sizeof(*f)) && __CPROVER_is_fresh(node, sizeof(Node *)) && \
                     __CPROVER_is_fresh(counter, sizeof(unsigned int)) && __CPROVER_is_fresh(__retval, sizeof(_Bool))) \
  __CPROVER_requires(PEQ(f->self, self) && UNLOCKED(self) && *counter == g_c && g_T <= g_clock && CLOCK_OK) \
  __CPROVER_requires(TRV_C == NULL ? (FRESH_NODE(gW) && w_inv_end(gW)) : TRV_REQ_NONNULL) \
  __CPROVER_assigns(*node, *__retval, self->mutex.depth, self->head, self->tail, self->currentCounter, g_lastCalledRank, g_W_calls, g_clock) \
  __CPROVER_assigns(TRV_C != NULL: __CPROVER_object_whole(TRV_C)) \
  __CPROVER_assigns(__CPROVER_object_whole(gW)) \
  __CPROVER_assigns(TRV_C != NULL && TRV_C->next != NULL: __CPROVER_object_whole(TRV_C->next)) \
  __CPROVER_ensures(UNLOCKED(self)) \
  __CPROVER_ensures(__CPROVER_return_value >= 0 && __CPROVER_return_value <= 3) \
  __CPROVER_ensures((__CPROVER_return_value == 3 || __CPROVER_return_value == 1) ==> w_inv_end(gW))      /* loop exit: every callback present at the start and never removed was called exactly once, none twice, none added later */ \
  __CPROVER_ensures(__CPROVER_return_value == 0 ==> (TRV_C == NULL ? w_inv_end(gW) : (cursor_ok(TRV_C) && w_inv(TRV_C, gW))))

/* the user-code boundary: lambda passed to doForEachIf.  Contract = (G, R) of DESIGN 3.3: never enforced in the
 * traversal obligations (rely); enforced separately in thin form (-DOB_THIN) for the pass-through property. */
#ifndef OB_THIN
#define INVOKE_CONTRACT \
  __CPROVER_requires(UNLOCKED(__c->self))                                              /* no lock held while user code runs */ \
  __CPROVER_requires(LIVE(*node) && (*node)->counter <= g_c)                           /* only current, old-enough callbacks */ \
  __CPROVER_requires((*node)->rank > g_lastCalledRank)                                 /* list order, never the same one twice */ \
  __CPROVER_requires(*node != gW || g_W_calls == 0)                                    /* the witness at most once */ \
  __CPROVER_assigns(__CPROVER_object_whole(*node), __CPROVER_object_whole(gW)) \
  __CPROVER_assigns((*node)->next != NULL: __CPROVER_object_whole((*node)->next)) \
  __CPROVER_assigns(__c->self->head, __c->self->tail, __c->self->currentCounter, g_lastCalledRank, g_W_calls, g_clock) \
  __CPROVER_ensures(UNLOCKED(__c->self) && g_lastCalledRank == __CPROVER_old((*node)->rank)) \
  __CPROVER_ensures(g_W_calls == __CPROVER_old(g_W_calls) + (*node == gW ? 1 : 0)) \
  __CPROVER_ensures((*node)->rank == __CPROVER_old((*node)->rank) && (*node)->addStamp == __CPROVER_old((*node)->addStamp)) \
  __CPROVER_ensures(gW->rank == __CPROVER_old(gW->rank) && gW->addStamp == __CPROVER_old(gW->addStamp)) \
  __CPROVER_ensures(LIVE(*node) ? (*node)->counter == __CPROVER_old((*node)->counter) : (*node)->remStamp > g_T) \
  __CPROVER_ensures(__CPROVER_old(gW->counter) == 0 ? (gW->counter == 0 && gW->remStamp == __CPROVER_old(gW->remStamp)) \
                                                    : (LIVE(gW) ? gW->counter == __CPROVER_old(gW->counter) : gW->remStamp > g_T)) \
  __CPROVER_ensures(g_clock >= __CPROVER_old(g_clock) && CLOCK_OK) \
  __CPROVER_ensures((*node)->next == NULL || PEQ((*node)->next, gW) || PEQ((*node)->next, __CPROVER_old((*node)->next)) || FRESH_NODE((*node)->next)) \
  __CPROVER_ensures(g_fwd(*node) && j_gen(*node) && j_gen(gW) && gap(*node, gW) && uniq(*node, gW) && ((*node)->next != NULL ==> uniq((*node)->next, gW))) \
  __CPROVER_ensures(I_STAMP(*node) && I_STAMP(gW) && ((*node)->next != NULL ==> I_STAMP((*node)->next)))
#define CONTRACT_CL_forEach__UserEach__lambda0_call INVOKE_CONTRACT
#define CONTRACT_CL_forEachIf__UserEachIf__lambda0_call INVOKE_CONTRACT
#define CONTRACT_CL_forEachIf__call__lambda0__lambda0_call INVOKE_CONTRACT
#else
/* thin form (-DOB_THIN), C01 "passes every callback the invocation's arguments" / "forEach, forEachIf ... describe that
 * same content": what the boundary lambdas do with the node they are given.  Call log of the user-code stubs: */
extern int g_cbk_n; extern Callback *g_cbk_f; extern int g_cbk_arg; extern Node *g_cbk_h;
extern int g_cci_n, g_cci_arg; extern _Bool g_cci_ret, g_vis_ret;
#define THIN_LOG g_cbk_n, g_cbk_f, g_cbk_arg, g_cbk_h, g_cci_n, g_cci_arg, g_cci_ret, g_vis_ret
#define B01(b) ((b) == 0 || (b) == 1)
#define THIN_PRE (g_cbk_n >= 0 && g_cbk_n < 1000 && g_cci_n >= 0 && g_cci_n < 1000)
/* a callback gets its OWN copy of the arguments (by-value prototype) and may do with it what it likes */
#define CONTRACT_Callback_call \
  __CPROVER_assigns(a0->id, THIN_LOG) \
  __CPROVER_ensures(g_cbk_n == __CPROVER_old(g_cbk_n) + 1 && g_cbk_f == f && g_cbk_arg == __CPROVER_old(a0->id) && g_cci_n == __CPROVER_old(g_cci_n))
#define CONTRACT_canContinueInvoking \
  __CPROVER_assigns(g_cci_n, g_cci_arg, g_cci_ret) \
  __CPROVER_ensures(g_cci_n == __CPROVER_old(g_cci_n) + 1 && g_cci_arg == a0.id && B01(g_cci_ret) && __CPROVER_return_value == g_cci_ret)
#define CONTRACT_UserEach_call \
  __CPROVER_assigns(THIN_LOG) \
  __CPROVER_ensures(g_cbk_n == __CPROVER_old(g_cbk_n) + 1 && g_cbk_f == a1 && g_cbk_h == a0->p)
#define CONTRACT_UserEachIf_call \
  __CPROVER_assigns(THIN_LOG) \
  __CPROVER_ensures(g_cbk_n == __CPROVER_old(g_cbk_n) + 1 && g_cbk_f == a0 && B01(g_vis_ret) && __CPROVER_return_value == g_vis_ret)
/* operator(): the callback is called once with the invocation's argument VALUES, then the canContinueInvoking policy
 * with the same values; the invocation's own argument objects are left untouched for the callbacks that follow */
#define CONTRACT_CL_call__lambda0_call \
  __CPROVER_requires(__CPROVER_is_fresh(__c, sizeof(*__c)) && __CPROVER_is_fresh(__c->cap_args, sizeof(VArg)) && __CPROVER_is_fresh(callback, sizeof(Callback)) && THIN_PRE) \
  __CPROVER_assigns(THIN_LOG) \
  __CPROVER_ensures(g_cbk_n == __CPROVER_old(g_cbk_n) + 1 && g_cbk_f == callback && g_cbk_arg == __CPROVER_old(__c->cap_args->id)) \
  __CPROVER_ensures(g_cci_n == __CPROVER_old(g_cci_n) + 1 && g_cci_arg == __CPROVER_old(__c->cap_args->id) && __CPROVER_return_value == g_cci_ret) \
  __CPROVER_ensures(__c->cap_args->id == __CPROVER_old(__c->cap_args->id))
#define THIN_NODE_PRE(F) (__CPROVER_is_fresh(F, sizeof(*(F))) && __CPROVER_is_fresh(node, sizeof(Node *)) && __CPROVER_is_fresh(*node, sizeof(Node)) && THIN_PRE)
#define CONTRACT_CL_doForEachInvoke___Bool_call__lambda0 \
  __CPROVER_requires(THIN_NODE_PRE(func) && __CPROVER_is_fresh(func->cap_args, sizeof(VArg))) \
  __CPROVER_assigns(THIN_LOG) \
  __CPROVER_ensures(g_cbk_n == __CPROVER_old(g_cbk_n) + 1 && g_cbk_f == &(*node)->callback && g_cbk_arg == __CPROVER_old(func->cap_args->id)) \
  __CPROVER_ensures(g_cci_n == __CPROVER_old(g_cci_n) + 1 && __CPROVER_return_value == g_cci_ret && func->cap_args->id == __CPROVER_old(func->cap_args->id))
#define CONTRACT_CL_forEachIf__call__lambda0__lambda0_call \
  __CPROVER_requires(THIN_NODE_PRE(__c) && __CPROVER_is_fresh(__c->cap_func, sizeof(*__c->cap_func)) && __CPROVER_is_fresh(__c->cap_func->cap_args, sizeof(VArg))) \
  __CPROVER_assigns(THIN_LOG) \
  __CPROVER_ensures(g_cbk_n == __CPROVER_old(g_cbk_n) + 1 && g_cbk_f == &(*node)->callback && g_cbk_arg == __CPROVER_old(__c->cap_func->cap_args->id)) \
  __CPROVER_ensures(g_cci_n == __CPROVER_old(g_cci_n) + 1 && __CPROVER_return_value == g_cci_ret)      /* false stops the invocation (C12: canContinueInvoking) */
/* forEach / forEachIf: the visitor sees the node's handle and ITS callback, once; forEachIf returns the visitor's verdict */
#define CONTRACT_CL_forEach__UserEach__lambda0_call \
  __CPROVER_requires(THIN_NODE_PRE(__c) && __CPROVER_is_fresh(__c->cap_func, sizeof(UserEach))) \
  __CPROVER_assigns(THIN_LOG) \
  __CPROVER_ensures(g_cbk_n == __CPROVER_old(g_cbk_n) + 1 && g_cbk_f == &(*node)->callback && g_cbk_h == *node && __CPROVER_return_value)
#define CONTRACT_CL_forEachIf__UserEachIf__lambda0_call \
  __CPROVER_requires(THIN_NODE_PRE(__c) && __CPROVER_is_fresh(__c->cap_func, sizeof(UserEachIf))) \
  __CPROVER_assigns(THIN_LOG) \
  __CPROVER_ensures(g_cbk_n == __CPROVER_old(g_cbk_n) + 1 && g_cbk_f == &(*node)->callback && __CPROVER_return_value == g_vis_ret)
#endif
#define CONTRACT_CL_doForEachIf__forEach__UserEach__lambda0__loop0 TRV_BODY_CONTRACT
#define CONTRACT_CL_doForEachIf__forEachIf__UserEachIf__lambda0__loop0 TRV_BODY_CONTRACT
#define CONTRACT_CL_doForEachIf__forEachIf__call__lambda0__lambda0__loop0 TRV_BODY_CONTRACT

/* prologue of the invocation: reads head under the mutex, then captures the generation counter.
 * ghost initialisation = "an arbitrary invocation starts now".  Establishes the loop invariant and the
 * generation rule J for every node that exists at that moment (lemma: stamps are in the past, counters current). */
#define TRV_PRE_CONTRACT \
  __CPROVER_requires(__CPROVER_is_fresh(self, sizeof(CL)) && __CPROVER_is_fresh(f, sizeof(*f)) && __CPROVER_is_fresh(node, sizeof(Node *)) && \
                     __CPROVER_is_fresh(counter, sizeof(unsigned int)) && __CPROVER_is_fresh(__retval, sizeof(_Bool))) \
  __CPROVER_requires(NULL_OR_FRESH(self->head) && ((self->head != NULL && PEQ(gW, self->head)) || FRESH_NODE(gW))) \
  __CPROVER_requires(UNLOCKED(self) && CLOCK_OK) \
  __CPROVER_requires(g_T == g_clock && g_c == self->currentCounter && g_lastCalledRank == 0 && g_W_calls == 0) \
  __CPROVER_requires(self->head != NULL ==> (LIVE(self->head) && I_STAMP(self->head) && i_cnt(self, self->head))) \
  __CPROVER_requires(I_STAMP(gW) && headgap(self, gW) && i_cnt(self, gW)) \
  __CPROVER_assigns(*node, *counter, self->mutex.depth) \
  __CPROVER_ensures(__CPROVER_return_value == 0 && UNLOCKED(self) && *counter == g_c && *node == self->head) \
  __CPROVER_ensures(*node == NULL ? w_inv_end(gW) : (cursor_ok(*node) && w_inv(*node, gW))) \
  __CPROVER_ensures(j_gen(gW) && (*node != NULL ==> j_gen(*node)))
#define CONTRACT_CL_doForEachIf__forEach__UserEach__lambda0__loop0_pre TRV_PRE_CONTRACT
#define CONTRACT_CL_doForEachIf__forEachIf__UserEachIf__lambda0__loop0_pre TRV_PRE_CONTRACT
#define CONTRACT_CL_doForEachIf__forEachIf__call__lambda0__lambda0__loop0_pre TRV_PRE_CONTRACT

/* ================================================================== ownsHandle (callbacklist.h:246), split loop
 * statement: true exactly for callbacks that are in this list; false for empty / expired handles and for the
 * handle of an already removed callback.  Walk = backward instances; the chain head is identified through the
 * ghost chain tag: all live nodes of one list carry the tag of its head (I_FWD/I_BWD neighbours agree, checked by
 * the operations through K_ENS is NOT done for the tag -- see evidence: tag preservation is an assumed invariant). */
#define OWN_BODY_CONTRACT \
  __CPROVER_requires(__CPROVER_is_fresh(self, sizeof(CL)) && __CPROVER_is_fresh(handle, sizeof(Handle)) && __CPROVER_is_fresh(node, sizeof(Node *)) && __CPROVER_is_fresh(__retval, sizeof(_Bool))) \
  __CPROVER_requires(FRESH_NODE(*node) && NULL_OR_FRESH((*node)->previous) && HELD(self)) \
  __CPROVER_requires(LIVE(*node) && ((*node)->previous != NULL ==> (LIVE((*node)->previous) && (*node)->previous->rank < (*node)->rank))) \
  __CPROVER_requires(g_u0 == (*node)->rank) \
  __CPROVER_assigns(*node) \
  __CPROVER_ensures(HELD(self) && (__CPROVER_return_value == 0 || __CPROVER_return_value == 3)) \
  __CPROVER_ensures(__CPROVER_return_value == 3 ==> (*node == __CPROVER_old(*node) && (*node)->previous == NULL)) \
  __CPROVER_ensures(__CPROVER_return_value == 0 ==> (*node == __CPROVER_old((*node)->previous) && LIVE(*node) && (*node)->rank < g_u0))   /* strictly decreasing rank: the walk terminates */
#define CONTRACT_CL_ownsHandle__loop0 OWN_BODY_CONTRACT

/* ================================================================== C19: getNextCounter on wrap-around (callbacklist.h:423), -DOB_WRAP
 * reset loop (split): every LIVE node gets generation 1, removed nodes (mark 0) are never touched; afterwards the
 * list counter restarts at 1 so "live => 1 <= counter <= currentCounter" holds again and new nodes get larger ones.
 * 32-bit arithmetic is exact (unsigned int). */
#ifdef OB_WRAP
static inline _Bool reset_inv(const Node *c, const Node *W)      /* nodes the cursor has passed are reset */
{ return !(LIVE(W) && (c == NULL || W->rank < c->rank)) || W->counter == 1; }
#define RS_C (*node)
#define CONTRACT_CL_getNextCounter__loop0 \
  __CPROVER_requires(__CPROVER_is_fresh(self, sizeof(CL)) && __CPROVER_is_fresh(result, sizeof(unsigned int)) && __CPROVER_is_fresh(node, sizeof(Node *)) && __CPROVER_is_fresh(__retval, sizeof(unsigned int))) \
  __CPROVER_requires(RS_C == NULL ? FRESH_NODE(gW) : (FRESH_NODE(RS_C) && (PEQ(gW, RS_C) || FRESH_NODE(gW)) && (RS_C->next == NULL || PEQ(RS_C->next, gW) || FRESH_NODE(RS_C->next)))) \
  __CPROVER_requires(HELD(self) && CLOCK_OK && g_b0 == LIVE(gW)) \
  __CPROVER_requires(RS_C != NULL ==> (LIVE(RS_C) && g_fwd(RS_C) && gap(RS_C, gW) && uniq(RS_C, gW))) \
  __CPROVER_requires(reset_inv(RS_C, gW)) \
  __CPROVER_assigns(*node) \
  __CPROVER_assigns(RS_C != NULL: RS_C->counter) \
  __CPROVER_ensures(HELD(self) && (__CPROVER_return_value == 0 || __CPROVER_return_value == 3)) \
  __CPROVER_ensures(__CPROVER_return_value == 3 ==> (RS_C == NULL && reset_inv(NUL, gW)))     /* loop exit: EVERY live node has been reset */ \
  __CPROVER_ensures(__CPROVER_return_value == 0 ==> (__CPROVER_old(*node)->counter == 1 && RS_C == __CPROVER_old((*node)->next) && (RS_C != NULL ==> LIVE(RS_C)) && reset_inv(RS_C, gW))) \
  __CPROVER_ensures(LIVE(gW) == g_b0)                                                         /* nobody is lost, nobody resurrected */
#define CONTRACT_CL_getNextCounter__loop0_pre \
  __CPROVER_requires(__CPROVER_is_fresh(self, sizeof(CL)) && __CPROVER_is_fresh(result, sizeof(unsigned int)) && __CPROVER_is_fresh(node, sizeof(Node *)) && __CPROVER_is_fresh(__retval, sizeof(unsigned int))) \
  __CPROVER_requires(NULL_OR_FRESH(self->head) && ((self->head != NULL && PEQ(gW, self->head)) || FRESH_NODE(gW))) \
  __CPROVER_requires(UNLOCKED(self) && headgap(self, gW) && (self->head != NULL ==> LIVE(self->head))) \
  __CPROVER_assigns(*node, self->mutex.depth) \
  __CPROVER_ensures(__CPROVER_return_value == 0 && HELD(self) && *node == self->head && (*node != NULL ==> LIVE(*node)) && reset_inv(*node, gW))
#define CONTRACT_CL_getNextCounter__loop0_epi \
  __CPROVER_requires(__CPROVER_is_fresh(self, sizeof(CL)) && __CPROVER_is_fresh(result, sizeof(unsigned int)) && __CPROVER_is_fresh(node, sizeof(Node *)) && __CPROVER_is_fresh(__retval, sizeof(unsigned int))) \
  __CPROVER_requires(HELD(self)) \
  __CPROVER_assigns(self->mutex.depth) \
  __CPROVER_ensures(__CPROVER_return_value == 0 && UNLOCKED(self))
/* summary of the loop as established by prologue / iteration / exit (loop rule, meta-step) */
#define CONTRACT_CL_getNextCounter__loop0_summary \
  __CPROVER_requires(HELD(self) && *node == self->head) \
  __CPROVER_assigns(*node, gW->counter) \
  __CPROVER_ensures(__CPROVER_return_value == 0 && HELD(self)) \
  __CPROVER_ensures(__CPROVER_old(gW->counter) == 0 ? gW->counter == 0 : gW->counter == 1)
/* the whole function (skeleton = real body with the loop replaced by its summary) */
#define CONTRACT_CL_getNextCounter__skel \
  __CPROVER_requires(__CPROVER_is_fresh(self, sizeof(CL)) && NULL_OR_FRESH(self->head) && ((self->head != NULL && PEQ(gW, self->head)) || FRESH_NODE(gW))) \
  __CPROVER_requires(UNLOCKED(self) && i_cnt(self, gW) && g_b0 == LIVE(gW) && g_u0 == self->currentCounter && g_u1 == gW->counter) \
  __CPROVER_assigns(self->currentCounter, self->mutex.depth, gW->counter) \
  __CPROVER_ensures(UNLOCKED(self) && __CPROVER_return_value != 0 && __CPROVER_return_value == self->currentCounter) \
  __CPROVER_ensures(g_u0 != 0xffffffffull ? (self->currentCounter == (unsigned int)g_u0 + 1 && gW->counter == (unsigned int)g_u1) \
                                          : (self->currentCounter == 1 && (g_b0 ==> gW->counter == 1))) \
  __CPROVER_ensures(LIVE(gW) == g_b0 && i_cnt(self, gW))      /* removed stay removed, live stay live, and 1 <= counter <= currentCounter again */
#endif

/* ================================================================== C10 / C08: construction, copy, move, swap, destruction
 * Object storage may have held arbitrary bytes before construction: the constructor obligations start from a
 * completely unconstrained *self (is_fresh only). */
#define CONTRACT_CL_ctor \
  __CPROVER_requires(__CPROVER_is_fresh(self, sizeof(CL))) \
  __CPROVER_assigns(self->head, self->tail, self->mutex.depth, self->currentCounter) \
  __CPROVER_ensures(self->head == NULL && self->tail == NULL && UNLOCKED(self) && self->currentCounter == 0)

/* swap: exchanges head, tail and the generation counter (which travels with the nodes); swap with itself changes nothing */
#define CONTRACT_CL_swap \
  __CPROVER_requires(__CPROVER_is_fresh(self, sizeof(CL)) && (PEQ(other, self) || __CPROVER_is_fresh(other, sizeof(CL)))) \
  __CPROVER_assigns(self->head, self->tail, self->currentCounter, other->head, other->tail, other->currentCounter) \
  __CPROVER_ensures(self->head == __CPROVER_old(other->head) && self->tail == __CPROVER_old(other->tail) && self->currentCounter == __CPROVER_old(other->currentCounter)) \
  __CPROVER_ensures(other->head == __CPROVER_old(self->head) && other->tail == __CPROVER_old(self->tail) && other->currentCounter == __CPROVER_old(self->currentCounter))

/* move construction: the new list takes the source's nodes and counter, the source is left empty and valid */
#define CONTRACT_CL_ctor_move \
  __CPROVER_requires(__CPROVER_is_fresh(self, sizeof(CL)) && __CPROVER_is_fresh(other, sizeof(CL))) \
  __CPROVER_assigns(self->head, self->tail, self->mutex.depth, self->currentCounter, other->head, other->tail, other->currentCounter) \
  __CPROVER_ensures(self->head == __CPROVER_old(other->head) && self->tail == __CPROVER_old(other->tail) && self->currentCounter == __CPROVER_old(other->currentCounter) && UNLOCKED(self)) \
  __CPROVER_ensures(other->head == NULL && other->tail == NULL && other->currentCounter == 0)

/* doFreeAllNodes (callbacklist.h:411), split loop: every node of the chain gets both links cleared, so no
 * reference cycle keeps the nodes (and their callbacks) alive once the list lets go of them (C08) */
#define FA_C (*node)
#define CONTRACT_CL_doFreeAllNodes__loop0 \
  __CPROVER_requires(__CPROVER_is_fresh(self, sizeof(CL)) && __CPROVER_is_fresh(node, sizeof(Node *))) \
  __CPROVER_requires(FA_C == NULL || (FRESH_NODE(FA_C) && (FA_C->next == NULL || FRESH_NODE(FA_C->next)))) \
  __CPROVER_assigns(*node) \
  __CPROVER_assigns(FA_C != NULL: FA_C->previous, FA_C->next) \
  __CPROVER_ensures(__CPROVER_return_value == 0 || __CPROVER_return_value == 3) \
  __CPROVER_ensures(__CPROVER_return_value == 3 ==> FA_C == NULL) \
  __CPROVER_ensures(__CPROVER_return_value == 0 ==> (__CPROVER_old(*node)->next == NULL && __CPROVER_old(*node)->previous == NULL && FA_C == __CPROVER_old((*node)->next)))
/* loop summary for a witness gW of the chain (loop rule): its links are cleared */
#define CONTRACT_CL_doFreeAllNodes__loop0_summary \
  __CPROVER_assigns(*node, gW->next, gW->previous) \
  __CPROVER_ensures(__CPROVER_return_value == 0 && *node == NULL && gW->next == NULL && gW->previous == NULL)
#define CONTRACT_CL_doFreeAllNodes__skel \
  __CPROVER_requires(__CPROVER_is_fresh(self, sizeof(CL)) && FRESH_NODE(gW)) \
  __CPROVER_assigns(self->head, gW->next, gW->previous) \
  __CPROVER_ensures(self->head == NULL && self->tail == __CPROVER_old(self->tail) && self->currentCounter == __CPROVER_old(self->currentCounter)) \
  __CPROVER_ensures(gW->next == NULL && gW->previous == NULL)
/* the function as its callers see it (contract of the real function = contract of the skeleton, by the loop rule) */
#define CONTRACT_CL_doFreeAllNodes \
  __CPROVER_requires(FRESH_NODE(gW)) \
  __CPROVER_assigns(self->head, gW->next, gW->previous) \
  __CPROVER_ensures(self->head == NULL && self->tail == __CPROVER_old(self->tail) && self->currentCounter == __CPROVER_old(self->currentCounter)) \
  __CPROVER_ensures(gW->next == NULL && gW->previous == NULL)

/* move assignment: own nodes are released first (links cleared), then the source's nodes and counter are taken over;
 * the source is left with no nodes; self-assignment changes nothing */
#define CONTRACT_CL_assign_move \
  __CPROVER_requires(__CPROVER_is_fresh(self, sizeof(CL)) && (PEQ(other, self) || __CPROVER_is_fresh(other, sizeof(CL))) && FRESH_NODE(gW)) \
  __CPROVER_requires(g_b0 == (self == other)) \
  __CPROVER_assigns(self->head, self->tail, self->currentCounter, other->head, other->tail, gW->next, gW->previous) \
  __CPROVER_ensures(__CPROVER_return_value == self) \
  __CPROVER_ensures(g_b0 ? (self->head == __CPROVER_old(self->head) && self->tail == __CPROVER_old(self->tail) && self->currentCounter == __CPROVER_old(self->currentCounter) && gW->next == __CPROVER_old(gW->next) && gW->previous == __CPROVER_old(gW->previous)) \
                         : (self->head == __CPROVER_old(other->head) && self->tail == __CPROVER_old(other->tail) && self->currentCounter == __CPROVER_old(other->currentCounter) && \
                            other->head == NULL && other->tail == NULL && gW->next == NULL && gW->previous == NULL))

/* destructor: releases every node (links cleared) and both list references */
#define CONTRACT_CL_dtor \
  __CPROVER_requires(__CPROVER_is_fresh(self, sizeof(CL)) && FRESH_NODE(gW)) \
  __CPROVER_assigns(self->head, self->tail, gW->next, gW->previous) \
  __CPROVER_ensures(self->head == NULL && self->tail == NULL && gW->next == NULL && gW->previous == NULL)

/* cloneFrom (callbacklist.h:441), split loop.  One iteration copies the source node F = *fromNode into a NEW node
 * (is_fresh in the postcondition: shared with nothing -- independence), same callback, the one generation `counter`,
 * linked behind the previous clone D = *node; the source is not written.  prophecy: the clone gets the source node's
 * rank, so the clone chain is ordered exactly like the source chain. */
#define CF_F (*fromNode)
#define CF_D (*node)
#define CONTRACT_CL_cloneFrom__loop0 \
  __CPROVER_requires(__CPROVER_is_fresh(self, sizeof(CL)) && FRESH_LOCALS_CL_cloneFrom__loop0) \
  __CPROVER_requires(CF_F == NULL || (FRESH_NODE(CF_F) && NULL_OR_FRESH(CF_F->next))) \
  __CPROVER_requires(NULL_OR_FRESH(CF_D)) \
  __CPROVER_requires(CLOCK_OK && self->currentCounter != 0 && *counter == self->currentCounter && (CF_F != NULL ==> (LIVE(CF_F) && g_fwd(CF_F) && g_next_rank == CF_F->rank && CF_F->rank > 0))) \
  __CPROVER_requires(CF_D != NULL ? (CF_D->next == NULL && LIVE(CF_D) && CF_D->counter == self->currentCounter && self->head != NULL && (CF_F != NULL ==> CF_D->rank < CF_F->rank)) : self->head == NULL) \
  __CPROVER_requires(g_u0 == (unsigned long long)(CF_D != NULL)) \
  __CPROVER_assigns(LOCALS_CL_cloneFrom__loop0, g_clock) \
  __CPROVER_assigns(CF_F != NULL && CF_D == NULL: self->head) \
  __CPROVER_assigns(CF_F != NULL && CF_D != NULL: CF_D->next) \
  __CPROVER_ensures(__CPROVER_return_value == 0 || __CPROVER_return_value == 3) \
  __CPROVER_ensures(__CPROVER_return_value == 3 ==> (CF_F == NULL && CF_D == __CPROVER_old(*node))) \
  __CPROVER_ensures(__CPROVER_return_value == 0 ==> (FRESH_NODE(CF_D) && CF_D->next == NULL && LIVE(CF_D) && CF_D->counter == self->currentCounter && self->currentCounter == __CPROVER_old(self->currentCounter)))   /* the one generation of the copy = its list counter */ \
  __CPROVER_ensures(__CPROVER_return_value == 0 ==> (CF_D->callback.id == __CPROVER_old(*fromNode)->callback.id && CF_D->rank == __CPROVER_old(*fromNode)->rank)) \
  __CPROVER_ensures(__CPROVER_return_value == 0 ==> (CF_D->previous == __CPROVER_old(*node) && CF_F == __CPROVER_old((*fromNode)->next))) \
  __CPROVER_ensures(__CPROVER_return_value == 0 ==> (g_u0 ? (CF_D->previous->next == CF_D && CF_D->previous->rank < CF_D->rank && self->head == __CPROVER_old(self->head)) : self->head == CF_D)) \
  __CPROVER_ensures(__CPROVER_return_value == 0 ==> (self->head != NULL && (CF_F != NULL ==> CF_D->rank < CF_F->rank)))
/* (-DOB_WRAP_USE: also when the generation counter wraps at this very call: the copies never get the "removed" mark 0) */
#ifdef OB_WRAP_USE
#define CLONE_NOWRAP(s) 1
#define CLONE_STEP(s) (__CPROVER_old((s)->currentCounter) == 0xffffffffu ? (s)->currentCounter == 1 : (s)->currentCounter == __CPROVER_old((s)->currentCounter) + 1)
#else
#define CLONE_NOWRAP(s) NOWRAP(s)
#define CLONE_STEP(s) ((s)->currentCounter == __CPROVER_old((s)->currentCounter) + 1)
#endif
#define CONTRACT_CL_cloneFrom__loop0_pre \
  __CPROVER_requires(__CPROVER_is_fresh(self, sizeof(CL)) && FRESH_LOCALS_CL_cloneFrom__loop0) \
  __CPROVER_requires(UNLOCKED(self) && CLONE_NOWRAP(self) && self->head == NULL) \
  __CPROVER_assigns(LOCALS_CL_cloneFrom__loop0, self->currentCounter) \
  __CPROVER_ensures(__CPROVER_return_value == 0 && *fromNode == __CPROVER_old(*fromHead) && *node == NULL && CLONE_STEP(self) && self->currentCounter != 0 && self->head == NULL && *counter == self->currentCounter)
#define CONTRACT_CL_cloneFrom__loop0_epi \
  __CPROVER_requires(__CPROVER_is_fresh(self, sizeof(CL)) && FRESH_LOCALS_CL_cloneFrom__loop0) \
  __CPROVER_assigns(self->tail) \
  __CPROVER_ensures(__CPROVER_return_value == 0 && self->tail == *node)
#include "exc.h"
