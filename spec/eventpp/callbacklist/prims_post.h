/* spec for unit "callbacklist": predicates, trusted environment contracts, contracts of the extracted functions */
extern unsigned long long g_next_rank;     /* prophecy: rank the next allocated node will receive */
extern unsigned long long g_T, g_lastCalledRank;   /* ghost state of one arbitrary invocation */
extern unsigned int g_c;
extern int g_W_calls;

#define LIVE(k) ((k)->counter != 0)

/* weak_ptr::lock(): null handle -> null; a live node is referenced by its list -> not expired;
 * a removed node may or may not still be referenced (by a running traversal or a stale link) -> either */
_Bool nondet_bool(void);
static inline Node *weak_lock(Handle *h)
{
  if (h->p == NULL) return NULL;
  if (LIVE(h->p)) return h->p;
  return nondet_bool() ? h->p : NULL;
}
static inline _Bool weak_expired(Handle *h) { return weak_lock(h) == NULL; }

/* ------------------------------------------------------------------ node-local invariant instances */
/* forward instance at k: reads k, k->next, L->tail */
static inline _Bool i_fwd(const CL *L, const Node *k)
{
  const Node *x = k->next;
  if (LIVE(k)) {
    if ((x == NULL) != (L->tail == k)) return 0;
    if (x != NULL) return LIVE(x) && x->previous == k && x->rank > k->rank;
    return 1;
  }
  if (x != NULL) return x->rank > k->rank && (LIVE(x) || x->remStamp > k->remStamp);
  return 1;
}
/* backward instance at k: reads k, k->previous, L->head */
static inline _Bool i_bwd(const CL *L, const Node *k)
{
  const Node *x = k->previous;
  if (LIVE(k)) {
    if ((x == NULL) != (L->head == k)) return 0;
    if (x != NULL) return LIVE(x) && x->next == k && x->rank < k->rank;
    return 1;
  }
  if (x != NULL) return x->rank < k->rank && (LIVE(x) || x->remStamp > k->remStamp);
  return 1;
}
static inline _Bool i_stamp(const Node *k)
{
  return k->addStamp <= g_clock && (LIVE(k) || (k->remStamp <= g_clock && k->remStamp > k->addStamp));
}
#define I_FWD(L, k) i_fwd(L, k)
#define I_BWD(L, k) i_bwd(L, k)
#define I_STAMP(k) i_stamp(k)
/* ------------------------------------------------------------------ window helpers (DESIGN 3.1, rules 2, 3, 8) */
#define FRESH_NODE(p)      __CPROVER_is_fresh(p, sizeof(Node))
#define NULL_OR_FRESH(p)   ((p) == NULL || FRESH_NODE(p))
#define PEQ(a, b)          __CPROVER_pointer_equals(a, b)
/* pointer-valued postcondition (rule 3: a field havoc'd by a replaced contract needs pointer_equals to get a value set) */
#define PTR_IS(x, v)       (((v) == NULL) ? ((x) == NULL) : PEQ(x, v))
/* p is null, is one of up to three named window nodes, or is some other node */
#define ALIAS3(p, a, b, c) ((p) == NULL || ((a) != NULL && PEQ(p, a)) || ((b) != NULL && PEQ(p, b)) || ((c) != NULL && PEQ(p, c)) || FRESH_NODE(p))

/* two-state facts every operation guarantees about a node it does not own (rely R, DESIGN 3.3) */
#define FROZEN_IF_REMOVED(k, old_counter, old_next, old_prev, old_rem) \
  ((old_counter) == 0 ==> ((k)->counter == 0 && (k)->next == (old_next) && (k)->previous == (old_prev) && (k)->remStamp == (old_rem)))

/* ------------------------------------------------------------------ the arbitrary other node gK
 * forall-introduction over the unbounded heap (DESIGN 3.1): after an operation every invariant instance must hold
 * again at an ARBITRARY node.  An instance can only be affected if it reads something the operation writes, i.e.
 * if the node is a footprint node or one of its links points to a footprint node.  gK is therefore any node
 * other than the window nodes a, b, c, d (possibly null); each of its links is null, points to a window node, or
 * points elsewhere.  The far-side instances of the window nodes themselves (e.g. the backward instance of the
 * predecessor p of a removed node) read nothing in the function's assigns clause -- p's own fields other than
 * p->next, the node before p, and L->head, which is assignable only when the removed node WAS the head, i.e. when
 * there is no p -- so they are preserved by the frame that DFCC checks; that step is part of the meta-argument.
 * (DFCC allows one pointer predicate per pointer lvalue, so gK cannot be aliased to a window node whose links are
 * already described.) */
#define ALIAS4(p, a, b, c, d) ((p) == NULL || ((a) != NULL && PEQ(p, a)) || ((b) != NULL && PEQ(p, b)) || ((c) != NULL && PEQ(p, c)) || ((d) != NULL && PEQ(p, d)) || FRESH_NODE(p))
#define K_REQ(L, a, b, c, d) (FRESH_NODE(gK) && ALIAS4(gK->next, a, b, c, d) && ALIAS4(gK->previous, a, b, c, d) && I_FWD(L, gK) && I_BWD(L, gK) && I_STAMP(gK))
#define K_ENS(L) (I_FWD(L, gK) && I_BWD(L, gK) && I_STAMP(gK))
#define CLOCK_OK          (g_clock < 0xffffffffffff0000ull)
#define HELD(L)           ((L)->mutex.depth == 1)
#define UNLOCKED(L)       ((L)->mutex.depth == 0)

/* ================================================================== doFreeNode (callbacklist.h:386)
 * window: n = *node, p = n->previous, s = n->next, arbitrary other node gK
 * pre : mutex held, n is a LIVE node of this list (instances at n)
 * post: exact link surgery; n marked removed and stamped, its own links kept (stale); instances again at n, p, s, gK */
#define CONTRACT_CL_doFreeNode \
  __CPROVER_requires(__CPROVER_is_fresh(self, sizeof(CL)) && __CPROVER_is_fresh(node, sizeof(Node *)) && FRESH_NODE(*node)) \
  __CPROVER_requires(NULL_OR_FRESH((*node)->previous) && NULL_OR_FRESH((*node)->next)) \
  __CPROVER_requires(K_REQ(self, *node, (*node)->previous, (*node)->next, (Node *)NULL)) \
  __CPROVER_requires(HELD(self) && CLOCK_OK) \
  __CPROVER_requires(LIVE(*node) && I_FWD(self, *node) && I_BWD(self, *node) && I_STAMP(*node)) \
  __CPROVER_requires((*node)->previous != NULL ==> (I_FWD(self, (*node)->previous) && I_STAMP((*node)->previous))) \
  __CPROVER_requires((*node)->next != NULL ==> (I_BWD(self, (*node)->next) && I_STAMP((*node)->next))) \
  __CPROVER_assigns((*node)->counter, (*node)->remStamp, g_clock) \
  __CPROVER_assigns(self->head == *node: self->head) \
  __CPROVER_assigns(self->tail == *node: self->tail) \
  __CPROVER_assigns((*node)->next != NULL: (*node)->next->previous) \
  __CPROVER_assigns((*node)->previous != NULL: (*node)->previous->next) \
  __CPROVER_ensures(!LIVE(*node) && (*node)->remStamp == g_clock && g_clock == __CPROVER_old(g_clock) + 1) \
  __CPROVER_ensures((*node)->next == __CPROVER_old((*node)->next) && (*node)->previous == __CPROVER_old((*node)->previous)) \
  __CPROVER_ensures((*node)->previous != NULL ==> PTR_IS((*node)->previous->next, (*node)->next)) \
  __CPROVER_ensures((*node)->next != NULL ==> PTR_IS((*node)->next->previous, (*node)->previous)) \
  __CPROVER_ensures(__CPROVER_old(self->head) == *node ? PTR_IS(self->head, (*node)->next) : self->head == __CPROVER_old(self->head)) \
  __CPROVER_ensures(__CPROVER_old(self->tail) == *node ? PTR_IS(self->tail, (*node)->previous) : self->tail == __CPROVER_old(self->tail)) \
  __CPROVER_ensures(HELD(self)) \
  __CPROVER_ensures(I_FWD(self, *node) && I_BWD(self, *node) && I_STAMP(*node)) \
  __CPROVER_ensures((*node)->previous != NULL ==> I_FWD(self, (*node)->previous)) \
  __CPROVER_ensures((*node)->next != NULL ==> I_BWD(self, (*node)->next)) \
  __CPROVER_ensures(K_ENS(self))

/* field-write hook: every store to Node::counter goes through this (extract/units.py field_hooks);
 * marking a node removed stamps it with the ghost clock */
#define NODE_SET_counter(n, v) ((n)->counter = (v), ((n)->counter == 0 ? ((n)->remStamp = ++g_clock) : 0ull), (n)->counter)

/* list header instance */
static inline _Bool i_hdr(const CL *L)
{
  if ((L->head == NULL) != (L->tail == NULL)) return 0;
  return 1;
}
#define I_HDR(L) i_hdr(L)
#define NOWRAP(L) ((L)->currentCounter != 0xffffffffu)

/* ================================================================== trusted environment: allocation
 * std::make_shared<Node> = this allocation + the extracted Node constructor.  The fresh node receives the
 * prophecy rank g_next_rank (constrained by the caller's precondition, renumbering lemma DESIGN 3.2) and the
 * next ghost-clock value as its addStamp. */
#define CONTRACT_Node_alloc \
  __CPROVER_requires(CLOCK_OK) \
  __CPROVER_assigns(g_clock) \
  __CPROVER_ensures(FRESH_NODE(__CPROVER_return_value)) \
  __CPROVER_ensures(g_clock == __CPROVER_old(g_clock) + 1) \
  __CPROVER_ensures(__CPROVER_return_value->rank == g_next_rank && __CPROVER_return_value->addStamp == g_clock)

/* ================================================================== getNextCounter (callbacklist.h:423)
 * epoch-internal contract (no wrap at this call); the wrap-around case is C19's obligation set (-DOB_WRAP) */
#ifndef OB_WRAP
#define CONTRACT_CL_getNextCounter \
  __CPROVER_requires(__CPROVER_is_fresh(self, sizeof(CL)) && NOWRAP(self)) \
  __CPROVER_assigns(self->currentCounter) \
  __CPROVER_ensures(__CPROVER_return_value == self->currentCounter && self->currentCounter == __CPROVER_old(self->currentCounter) + 1) \
  __CPROVER_ensures(__CPROVER_return_value != 0)
#endif

/* ================================================================== remove (callbacklist.h:228)
 * statement (C01/C02): returns true EXACTLY when it took a callback out of the list; through the handle of an
 * already removed (but still referenced) callback it is inert: returns false and changes nothing. */
#define RM_N (handle->p)
#define CONTRACT_CL_remove \
  __CPROVER_requires(__CPROVER_is_fresh(self, sizeof(CL)) && __CPROVER_is_fresh(handle, sizeof(Handle)) && NULL_OR_FRESH(RM_N)) \
  __CPROVER_requires(RM_N != NULL ==> (NULL_OR_FRESH(RM_N->previous) && NULL_OR_FRESH(RM_N->next))) \
  __CPROVER_requires(RM_N != NULL ==> K_REQ(self, RM_N, RM_N->previous, RM_N->next, (Node *)NULL)) \
  __CPROVER_requires(UNLOCKED(self) && CLOCK_OK) \
  __CPROVER_requires(g_b0 == (RM_N != NULL && LIVE(RM_N)))   /* snapshot: the handle refers to a callback that is in the list */ \
  __CPROVER_requires(RM_N != NULL ==> (I_FWD(self, RM_N) && I_BWD(self, RM_N) && I_STAMP(RM_N))) \
  __CPROVER_requires((RM_N != NULL && LIVE(RM_N) && RM_N->previous != NULL) ==> (I_FWD(self, RM_N->previous) && I_STAMP(RM_N->previous))) \
  __CPROVER_requires((RM_N != NULL && LIVE(RM_N) && RM_N->next != NULL) ==> (I_BWD(self, RM_N->next) && I_STAMP(RM_N->next))) \
  __CPROVER_assigns(self->mutex.depth) \
  __CPROVER_assigns(RM_N != NULL && LIVE(RM_N): RM_N->counter, RM_N->remStamp, g_clock, self->head, self->tail) \
  __CPROVER_assigns(RM_N != NULL && LIVE(RM_N) && RM_N->next != NULL: RM_N->next->previous) \
  __CPROVER_assigns(RM_N != NULL && LIVE(RM_N) && RM_N->previous != NULL: RM_N->previous->next) \
  __CPROVER_ensures(__CPROVER_return_value == g_b0) \
  __CPROVER_ensures(UNLOCKED(self)) \
  __CPROVER_ensures(RM_N != NULL ==> (!LIVE(RM_N) && RM_N->next == __CPROVER_old(RM_N->next) && RM_N->previous == __CPROVER_old(RM_N->previous))) \
  __CPROVER_ensures(__CPROVER_return_value ==> (RM_N->remStamp == g_clock && g_clock == __CPROVER_old(g_clock) + 1)) \
  __CPROVER_ensures((__CPROVER_return_value && RM_N->previous != NULL) ==> RM_N->previous->next == RM_N->next) \
  __CPROVER_ensures((__CPROVER_return_value && RM_N->next != NULL) ==> RM_N->next->previous == RM_N->previous) \
  __CPROVER_ensures(__CPROVER_return_value ==> self->head == (__CPROVER_old(self->head) == RM_N ? RM_N->next : __CPROVER_old(self->head))) \
  __CPROVER_ensures(__CPROVER_return_value ==> self->tail == (__CPROVER_old(self->tail) == RM_N ? RM_N->previous : __CPROVER_old(self->tail))) \
  __CPROVER_ensures(RM_N != NULL ==> (I_FWD(self, RM_N) && I_BWD(self, RM_N) && I_STAMP(RM_N))) \
  __CPROVER_ensures((g_b0 && RM_N->previous != NULL) ==> I_FWD(self, RM_N->previous)) \
  __CPROVER_ensures((g_b0 && RM_N->next != NULL) ==> I_BWD(self, RM_N->next)) \
  __CPROVER_ensures(RM_N != NULL ==> K_ENS(self))

/* ================================================================== append (callbacklist.h:171)
 * statement: the new callback goes to the back.  window: t = old tail (null or a node), gK.
 * prophecy : the fresh node's rank is above the old tail's (renumbering lemma). */
#define AP_T (self->tail)
#define CONTRACT_CL_append \
  __CPROVER_requires(__CPROVER_is_fresh(self, sizeof(CL)) && __CPROVER_is_fresh(callback, sizeof(Callback)) && NULL_OR_FRESH(AP_T)) \
  __CPROVER_requires(self->head == NULL || (AP_T != NULL && PEQ(self->head, AP_T)) || FRESH_NODE(self->head)) \
  __CPROVER_requires(UNLOCKED(self) && CLOCK_OK && NOWRAP(self) && I_HDR(self)) \
  __CPROVER_requires(AP_T != NULL ==> (LIVE(AP_T) && I_FWD(self, AP_T) && I_STAMP(AP_T) && g_next_rank > AP_T->rank)) \
  __CPROVER_requires(K_REQ(self, AP_T, self->head, (Node *)NULL, (Node *)NULL)) \
  __CPROVER_requires(g_u0 == (unsigned long long)(AP_T != NULL)) \
  __CPROVER_assigns(self->mutex.depth, self->currentCounter, g_clock, self->tail) \
  __CPROVER_assigns(AP_T == NULL: self->head) \
  __CPROVER_assigns(AP_T != NULL: AP_T->next) \
  __CPROVER_ensures(FRESH_NODE(__CPROVER_return_value.p))                           /* a new node, shared with nothing */ \
  __CPROVER_ensures(UNLOCKED(self) && I_HDR(self)) \
  __CPROVER_ensures(PEQ(self->tail, __CPROVER_return_value.p) && __CPROVER_return_value.p->next == NULL) \
  __CPROVER_ensures(PTR_IS(__CPROVER_return_value.p->previous, __CPROVER_old(self->tail))) \
  __CPROVER_ensures(g_u0 ? (PEQ(__CPROVER_return_value.p->previous->next, __CPROVER_return_value.p) && self->head == __CPROVER_old(self->head)) \
                         : PEQ(self->head, __CPROVER_return_value.p)) \
  __CPROVER_ensures(__CPROVER_return_value.p->callback.id == callback->id) \
  __CPROVER_ensures(__CPROVER_return_value.p->counter == self->currentCounter && self->currentCounter == __CPROVER_old(self->currentCounter) + 1) \
  __CPROVER_ensures(__CPROVER_return_value.p->rank == g_next_rank && __CPROVER_return_value.p->addStamp == g_clock && g_clock == __CPROVER_old(g_clock) + 1) \
  __CPROVER_ensures(I_FWD(self, __CPROVER_return_value.p) && I_BWD(self, __CPROVER_return_value.p) && I_STAMP(__CPROVER_return_value.p)) \
  __CPROVER_ensures(g_u0 ==> I_FWD(self, __CPROVER_return_value.p->previous)) \
  __CPROVER_ensures(K_ENS(self))

/* ================================================================== prepend (callbacklist.h:190): mirror image */
#define PP_H (self->head)
#define CONTRACT_CL_prepend \
  __CPROVER_requires(__CPROVER_is_fresh(self, sizeof(CL)) && __CPROVER_is_fresh(callback, sizeof(Callback)) && NULL_OR_FRESH(PP_H)) \
  __CPROVER_requires(self->tail == NULL || (PP_H != NULL && PEQ(self->tail, PP_H)) || FRESH_NODE(self->tail)) \
  __CPROVER_requires(UNLOCKED(self) && CLOCK_OK && NOWRAP(self) && I_HDR(self)) \
  __CPROVER_requires(PP_H != NULL ==> (LIVE(PP_H) && I_BWD(self, PP_H) && I_STAMP(PP_H) && g_next_rank < PP_H->rank)) \
  __CPROVER_requires(K_REQ(self, PP_H, self->tail, (Node *)NULL, (Node *)NULL)) \
  __CPROVER_requires(g_u0 == (unsigned long long)(PP_H != NULL)) \
  __CPROVER_assigns(self->mutex.depth, self->currentCounter, g_clock, self->head) \
  __CPROVER_assigns(PP_H == NULL: self->tail) \
  __CPROVER_assigns(PP_H != NULL: PP_H->previous) \
  __CPROVER_ensures(FRESH_NODE(__CPROVER_return_value.p)) \
  __CPROVER_ensures(UNLOCKED(self) && I_HDR(self)) \
  __CPROVER_ensures(PEQ(self->head, __CPROVER_return_value.p) && __CPROVER_return_value.p->previous == NULL) \
  __CPROVER_ensures(PTR_IS(__CPROVER_return_value.p->next, __CPROVER_old(self->head))) \
  __CPROVER_ensures(g_u0 ? (PEQ(__CPROVER_return_value.p->next->previous, __CPROVER_return_value.p) && self->tail == __CPROVER_old(self->tail)) \
                         : PEQ(self->tail, __CPROVER_return_value.p)) \
  __CPROVER_ensures(__CPROVER_return_value.p->callback.id == callback->id) \
  __CPROVER_ensures(__CPROVER_return_value.p->counter == self->currentCounter && self->currentCounter == __CPROVER_old(self->currentCounter) + 1) \
  __CPROVER_ensures(__CPROVER_return_value.p->rank == g_next_rank && __CPROVER_return_value.p->addStamp == g_clock && g_clock == __CPROVER_old(g_clock) + 1) \
  __CPROVER_ensures(I_FWD(self, __CPROVER_return_value.p) && I_BWD(self, __CPROVER_return_value.p) && I_STAMP(__CPROVER_return_value.p)) \
  __CPROVER_ensures(g_u0 ==> I_BWD(self, __CPROVER_return_value.p->next)) \
  __CPROVER_ensures(K_ENS(self))

/* ================================================================== doInsert (callbacklist.h:367)
 * window: m = *node (new, unlinked), b = *beforeNode (LIVE node of this list), bp = b->previous, gK */
#define DI_M (*node)
#define DI_B (*beforeNode)
#define CONTRACT_CL_doInsert \
  __CPROVER_requires(__CPROVER_is_fresh(self, sizeof(CL)) && __CPROVER_is_fresh(node, sizeof(Node *)) && __CPROVER_is_fresh(beforeNode, sizeof(Node *))) \
  __CPROVER_requires(FRESH_NODE(DI_M) && FRESH_NODE(DI_B) && NULL_OR_FRESH(DI_B->previous)) \
  __CPROVER_requires(HELD(self) && DI_M->previous == NULL && DI_M->next == NULL && LIVE(DI_M) && I_STAMP(DI_M)) \
  __CPROVER_requires(self->tail != DI_M && self->head != DI_M)      /* m is not linked yet */ \
  __CPROVER_requires(LIVE(DI_B) && I_BWD(self, DI_B) && I_STAMP(DI_B) && DI_M->rank < DI_B->rank) \
  __CPROVER_requires(DI_B->previous != NULL ==> (I_FWD(self, DI_B->previous) && DI_B->previous->rank < DI_M->rank)) \
  __CPROVER_requires(K_REQ(self, DI_B, DI_B->previous, (Node *)NULL, (Node *)NULL)) \
  __CPROVER_requires(g_u1 == (unsigned long long)(DI_B->previous != NULL)) \
  __CPROVER_assigns(DI_M->previous, DI_M->next, DI_B->previous) \
  __CPROVER_assigns(self->head == DI_B: self->head) \
  __CPROVER_assigns(DI_B->previous != NULL: DI_B->previous->next) \
  __CPROVER_ensures(PEQ(DI_M->next, DI_B) && PEQ(DI_B->previous, DI_M) && PTR_IS(DI_M->previous, __CPROVER_old(DI_B->previous))) \
  __CPROVER_ensures(g_u1 ? (PEQ(DI_M->previous->next, DI_M) && self->head == __CPROVER_old(self->head)) : PEQ(self->head, DI_M)) \
  __CPROVER_ensures(HELD(self) && I_FWD(self, DI_M) && I_BWD(self, DI_M) && I_BWD(self, DI_B)) \
  __CPROVER_ensures(g_u1 ==> I_FWD(self, DI_M->previous)) \
  __CPROVER_ensures(K_ENS(self))

/* ================================================================== insert (callbacklist.h:209)
 * statement: immediately before the referenced callback, or at the back when that callback is no longer in the
 * list (handle empty, expired, or referring to a removed but still referenced callback).
 * window: b = before->p, bp = b->previous, t = tail (null, b, or another node), gK */
#define IN_B (before->p)
#define IN_LIVE (IN_B != NULL && LIVE(IN_B))
#define CONTRACT_CL_insert \
  __CPROVER_requires(__CPROVER_is_fresh(self, sizeof(CL)) && __CPROVER_is_fresh(callback, sizeof(Callback)) && __CPROVER_is_fresh(before, sizeof(Handle))) \
  __CPROVER_requires(NULL_OR_FRESH(IN_B) && (IN_B != NULL ==> NULL_OR_FRESH(IN_B->previous))) \
  __CPROVER_requires(self->tail == NULL || (IN_B != NULL && PEQ(self->tail, IN_B)) || FRESH_NODE(self->tail)) \
  __CPROVER_requires(self->head == NULL || (IN_B != NULL && PEQ(self->head, IN_B)) || (IN_B != NULL && IN_B->previous != NULL && PEQ(self->head, IN_B->previous)) || PEQ(self->head, self->tail) || FRESH_NODE(self->head)) \
  __CPROVER_requires(UNLOCKED(self) && CLOCK_OK && NOWRAP(self) && I_HDR(self)) \
  __CPROVER_requires(g_b0 == IN_LIVE) \
  __CPROVER_requires(IN_B != NULL ==> (I_BWD(self, IN_B) && I_STAMP(IN_B))) \
  __CPROVER_requires((IN_LIVE && IN_B->previous != NULL) ==> (I_FWD(self, IN_B->previous) && I_STAMP(IN_B->previous))) \
  __CPROVER_requires(self->tail != NULL ==> (LIVE(self->tail) && I_FWD(self, self->tail) && I_STAMP(self->tail))) \
  __CPROVER_requires(IN_LIVE ? (g_next_rank < IN_B->rank && (IN_B->previous != NULL ==> IN_B->previous->rank < g_next_rank)) \
                             : (self->tail != NULL ==> g_next_rank > self->tail->rank)) \
  __CPROVER_requires(K_REQ(self, self->tail, IN_B, (IN_B != NULL ? IN_B->previous : (Node *)NULL), self->head)) \
  __CPROVER_requires(g_u0 == (unsigned long long)(self->tail != NULL) && g_u1 == (unsigned long long)(IN_LIVE && IN_B->previous != NULL)) \
  __CPROVER_assigns(self->mutex.depth, self->currentCounter, g_clock, self->head, self->tail) \
  __CPROVER_assigns(IN_LIVE: IN_B->previous) \
  __CPROVER_assigns(IN_LIVE && IN_B->previous != NULL: IN_B->previous->next) \
  __CPROVER_assigns(!IN_LIVE && self->tail != NULL: self->tail->next) \
  __CPROVER_ensures(FRESH_NODE(__CPROVER_return_value.p)) \
  __CPROVER_ensures(UNLOCKED(self) && I_HDR(self)) \
  __CPROVER_ensures(__CPROVER_return_value.p->callback.id == callback->id && LIVE(__CPROVER_return_value.p)) \
  __CPROVER_ensures(__CPROVER_return_value.p->rank == g_next_rank) \
  __CPROVER_ensures(g_b0 ==> (__CPROVER_return_value.p->next == IN_B && IN_B->previous == __CPROVER_return_value.p)) \
  __CPROVER_ensures(g_b0 ==> (g_u1 ? (__CPROVER_return_value.p->previous->next == __CPROVER_return_value.p && self->head == __CPROVER_old(self->head)) \
                                   : (__CPROVER_return_value.p->previous == NULL && self->head == __CPROVER_return_value.p))) \
  __CPROVER_ensures(g_b0 ==> self->tail == __CPROVER_old(self->tail)) \
  __CPROVER_ensures(!g_b0 ==> (self->tail == __CPROVER_return_value.p && __CPROVER_return_value.p->next == NULL && __CPROVER_return_value.p->previous == __CPROVER_old(self->tail))) \
  __CPROVER_ensures(!g_b0 ==> (g_u0 ? (__CPROVER_return_value.p->previous->next == __CPROVER_return_value.p && self->head == __CPROVER_old(self->head)) : self->head == __CPROVER_return_value.p)) \
  __CPROVER_ensures(I_FWD(self, __CPROVER_return_value.p) && I_BWD(self, __CPROVER_return_value.p) && I_STAMP(__CPROVER_return_value.p)) \
  __CPROVER_ensures(IN_B != NULL ==> I_BWD(self, IN_B)) \
  __CPROVER_ensures(K_ENS(self))

/* ================================================================== empty (callbacklist.h:158) */
#define CONTRACT_CL_empty \
  __CPROVER_requires(__CPROVER_is_fresh(self, sizeof(CL))) \
  __CPROVER_assigns() \
  __CPROVER_ensures(__CPROVER_return_value == (self->head == NULL))
