/* spec for unit "callbacklist": predicates, trusted environment contracts, contracts of the extracted functions */
extern unsigned long long g_next_rank;     /* prophecy: rank the next allocated node will receive */
extern unsigned long long g_T, g_lastCalledRank;   /* ghost state of one arbitrary invocation */
extern unsigned int g_c;
extern int g_W_calls;

#define LIVE(k) ((k)->counter != 0)

/* weak_ptr::lock(): null handle -> null; a live node is referenced by its list -> not expired;
 * a removed node may or may not still be referenced (by a running traversal or a stale link) -> either */
_Bool nondet_bool(void);
static inline Node *weak_lock(Handle *h)
{
  if (h->p == NULL) return NULL;
  if (LIVE(h->p)) return h->p;
  return nondet_bool() ? h->p : NULL;
}
static inline _Bool weak_expired(Handle *h) { return weak_lock(h) == NULL; }

/* ------------------------------------------------------------------ node-local invariant instances */
/* forward instance at k: reads k, k->next, L->tail */
#define I_FWD(L, k) ( \
  (LIVE(k) ==> ((((k)->next == NULL) == ((L)->tail == (k))) && \
                ((k)->next != NULL ==> (LIVE((k)->next) && (k)->next->previous == (k) && (k)->next->rank > (k)->rank)))) && \
  (!LIVE(k) ==> ((k)->next != NULL ==> ((k)->next->rank > (k)->rank && (LIVE((k)->next) || (k)->next->remStamp > (k)->remStamp)))) )
/* backward instance at k: reads k, k->previous, L->head */
#define I_BWD(L, k) ( \
  (LIVE(k) ==> ((((k)->previous == NULL) == ((L)->head == (k))) && \
                ((k)->previous != NULL ==> (LIVE((k)->previous) && (k)->previous->next == (k) && (k)->previous->rank < (k)->rank)))) && \
  (!LIVE(k) ==> ((k)->previous != NULL ==> ((k)->previous->rank < (k)->rank && (LIVE((k)->previous) || (k)->previous->remStamp > (k)->remStamp)))) )
/* stamps: every stamp is in the past; a removed node was removed after it was added */
#define I_STAMP(k) ((k)->addStamp <= g_clock && (LIVE(k) || ((k)->remStamp <= g_clock && (k)->remStamp > (k)->addStamp)))

/* ------------------------------------------------------------------ window helpers (DESIGN 3.1, rules 2, 3, 8) */
#define FRESH_NODE(p)      __CPROVER_is_fresh(p, sizeof(Node))
#define NULL_OR_FRESH(p)   ((p) == NULL || FRESH_NODE(p))
#define PEQ(a, b)          __CPROVER_pointer_equals(a, b)
/* p is null, is one of up to three named window nodes, or is some other node */
#define ALIAS3(p, a, b, c) ((p) == NULL || ((a) != NULL && PEQ(p, a)) || ((b) != NULL && PEQ(p, b)) || ((c) != NULL && PEQ(p, c)) || FRESH_NODE(p))

/* two-state facts every operation guarantees about a node it does not own (rely R, DESIGN 3.3) */
#define FROZEN_IF_REMOVED(k, old_counter, old_next, old_prev, old_rem) \
  ((old_counter) == 0 ==> ((k)->counter == 0 && (k)->next == (old_next) && (k)->previous == (old_prev) && (k)->remStamp == (old_rem)))

/* ================================================================== doFreeNode (callbacklist.h:386)
 * window: n = *node, p = n->previous, s = n->next, arbitrary other node gK (its links may point into the window)
 * pre : the mutex is held, n is a live node of this list, the invariant instances at n
 * post: exact link surgery; n marked removed and stamped, its own links kept (stale); instances again at p, s, gK */
#define CONTRACT_CL_doFreeNode \
  __CPROVER_requires(__CPROVER_is_fresh(self, sizeof(CL)) && __CPROVER_is_fresh(node, sizeof(Node *)) && FRESH_NODE(*node)) \
  __CPROVER_requires(NULL_OR_FRESH((*node)->previous) && NULL_OR_FRESH((*node)->next)) \
  __CPROVER_requires(self->mutex.depth == 1) \
  __CPROVER_requires(LIVE(*node) && I_FWD(self, *node) && I_BWD(self, *node)) \
  __CPROVER_requires(I_STAMP(*node) && g_clock < 0xffffffffffff0000ull) \
  __CPROVER_assigns((*node)->counter, (*node)->remStamp, g_clock, self->head, self->tail) \
  __CPROVER_assigns((*node)->next != NULL: (*node)->next->previous) \
  __CPROVER_assigns((*node)->previous != NULL: (*node)->previous->next) \
  __CPROVER_ensures(!LIVE(*node) && (*node)->remStamp == g_clock && g_clock == __CPROVER_old(g_clock) + 1) \
  __CPROVER_ensures((*node)->next == __CPROVER_old((*node)->next) && (*node)->previous == __CPROVER_old((*node)->previous)) \
  __CPROVER_ensures((*node)->previous != NULL ==> (*node)->previous->next == (*node)->next) \
  __CPROVER_ensures((*node)->next != NULL ==> (*node)->next->previous == (*node)->previous) \
  __CPROVER_ensures(self->head == (__CPROVER_old(self->head) == *node ? (*node)->next : __CPROVER_old(self->head))) \
  __CPROVER_ensures(self->tail == (__CPROVER_old(self->tail) == *node ? (*node)->previous : __CPROVER_old(self->tail))) \
  __CPROVER_ensures(self->mutex.depth == 1)

/* field-write hook: every store to Node::counter goes through this (extract/units.py field_hooks) */
#define NODE_SET_counter(n, v) ((n)->counter = (v), ((n)->counter == 0 ? ((n)->remStamp = ++g_clock) : 0ull), (n)->counter)
