/* ghost fields and unit-level typedefs for unit "callbacklist" (spec side, never written by extracted code
 * except through the field-write hooks declared in extract/units.py) */
typedef struct Handle { Node *p; } Handle;          /* std::weak_ptr<Node> / Handle_ */
typedef struct VArg { int id; } VArg;               /* opaque argument value: identity only */
typedef struct UserEach { int id; } UserEach;       /* opaque user functors */
typedef struct UserEachIf { int id; } UserEachIf;
#define HANDLE_FROM_SP(x) ((Handle){(x)})
#define VArg_COPY(p) (*(p))
int nondet_int(void);
#define VArg_MOVE(p) ({ VArg __t = *(p); (p)->id = nondet_int(); __t; })          /* moved-from: unspecified value */

/* Node: rank = position certificate (only compared with < and !=), addStamp / remStamp = ghost clock value
 * at which the node was linked / marked removed */
#define GHOST_FIELDS_Node unsigned long long rank; unsigned long long addStamp; unsigned long long remStamp;
