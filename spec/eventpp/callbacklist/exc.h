/* unit "callbacklist", -DMODE_EXC only (C08 / C09): the copy constructor when copying a callback raises.
 * CallbackListBase(const CallbackListBase &) delegates to the default constructor and then calls cloneFrom(), which
 * allocates one node per source callback and copies the callback into it - either may raise after some nodes have been
 * linked.  The nodes of the partial copy refer to each other through shared_ptr in both directions (next / previous): they
 * are reclaimed only if every link is cleared, which is what the destructor does (doFreeAllNodes) - and the destructor
 * runs exactly because the constructor delegates ([except.ctor]: the object is complete once the target constructor has
 * returned).  Obligation: when the exception leaves the copy constructor the new object holds no node, and an ARBITRARY
 * node gW of the partial copy has both links cleared (for every gW: no cycle keeps a copied callback alive).
 *
 * cloneFrom in this mode is ASSUMED to leave anything whatsoever behind when it raises (the weakest assumption: head, tail,
 * counter and the links of the witness node are unconstrained); its normal-path behaviour is the split-loop proof of C10. */
#ifdef MODE_EXC
#define CONTRACT_CL_cloneFrom \
  __CPROVER_requires(!g_exc) \
  __CPROVER_assigns(self->head, self->tail, self->currentCounter, g_exc, gW->next, gW->previous) \
  __CPROVER_ensures(1)
#define CONTRACT_CL_ctor_copy \
  __CPROVER_requires(__CPROVER_is_fresh(self, sizeof(CL)) && __CPROVER_is_fresh(other, sizeof(CL)) && FRESH_NODE(gW) && !g_exc) \
  __CPROVER_assigns(self->head, self->tail, self->mutex.depth, self->currentCounter, g_exc, gW->next, gW->previous) \
  __CPROVER_ensures(g_exc ==> (self->head == NULL && self->tail == NULL && gW->next == NULL && gW->previous == NULL))      /* nothing of the partial copy stays linked */ \
  __CPROVER_ensures(other->head == __CPROVER_old(other->head) && other->tail == __CPROVER_old(other->tail) && other->currentCounter == __CPROVER_old(other->currentCounter))   /* the source is untouched */
#endif
