/* unit "hdispatcher": HeterEventDispatcherBase::dispatch / doDispatch / doFindCallableList in both argument-passing forms.
 * The per-event HeterCallbackList is environment here (HCLT, a call log); the event -> list map is the TRUSTED
 * one-witness-key abstraction of std::map also used by unit dispatcher. */
typedef struct VArg { int id; } VArg;                   /* opaque argument values: identity only */
typedef struct WArg { int id; int extra; } WArg;
typedef struct HCLT { int opaque; } HCLT;               /* HeterCallbackList<...>: environment */
typedef struct Handle { int index; const void *p; } Handle;   /* HeterCallbackList::Handle: prototype index + weak_ptr<void> */
typedef struct CbV { int id; } CbV;                     /* user callbacks (identity only) */
typedef struct CbW { int id; } CbW;
typedef struct WPair { int first; HCLT second; } WPair;
struct Mutex;
typedef struct WMap { _Bool has; WPair w; struct Mutex *guard; } WMap;
typedef struct WMIt { WMap *m; int pos; } WMIt;         /* pos: 0 witness entry, 1 an anonymous entry, 2 end() */
_Bool nondet_bool(void); int nondet_int(void);
#define VArg_COPY(p) (*(p))
#define VArg_MOVE(p) ({ VArg __t = *(p); (p)->id = nondet_int(); __t; })          /* moved-from: unspecified value */
#define WArg_COPY(p) (*(p))
#define WArg_MOVE(p) ({ WArg __t = *(p); (p)->id = nondet_int(); __t; })
