/* spec for unit "hdispatcher" (C04 / C14 / C20: a heterogeneous dispatch reaches exactly the list registered for the
 * event that getEvent yields from the call's OWN arguments, once, with the argument values the caller supplied) */
extern int g_K;                    /* the witness event key (arbitrary) */
extern WPair g_anonP;              /* stand-in for the entry of any other key */
extern int g_n;                    /* number of invocations made on heterogeneous callback lists */
extern HCLT *g_cl;                 /* the list the last one was made on */
extern int g_kind;                 /* prototype of the last one: 1 = (VArg), 2 = (WArg)  (overload chosen by the argument type) */
extern int g_cbid;                 /* argument value it received */
extern struct Mutex *g_dmutex;     /* the mutex of the dispatcher under proof (ghost) */
extern int g_op;                   /* the last operation: 1 append 2 prepend 3 insert 4 remove 5 empty 9 operator() */
extern const void *g_cb;           /* callback object passed */
extern Handle g_hp, g_rh;          /* handle passed / handle returned */
extern _Bool g_rb;                 /* boolean returned */
#define LOG g_n, g_cl, g_kind, g_cbid, g_op, g_cb, g_hp, g_rh, g_rb

/* ------------------------------------------------------------------ TRUSTED map abstraction (lookup only) */
#define KIND_OF_listenerMutex 3
#undef MUTEX_MEMBER_INIT
#define MUTEX_MEMBER_INIT(m, s, name) do { (m)->depth = 0; (m)->kind = KIND_OF_##name; } while (0)
#define WM_GUARDED(m) __CPROVER_assert((m)->guard == NULL || (m)->guard->depth == 1, "lock discipline: the event map is read only with listenerMutex held")
static inline WMIt wmap_find(WMap *m, int key)
{
  WM_GUARDED(m);
  if (key == g_K) return (WMIt){m, m->has ? 0 : 2};
  if (nondet_bool()) { WPair fresh; g_anonP = fresh; g_anonP.first = key; return (WMIt){m, 1}; }
  return (WMIt){m, 2};
}
#define WMAP_FIND(m, key) wmap_find(m, key)
static inline HCLT *wmap_index(WMap *m, int key)
{
  WM_GUARDED(m);
  if (key == g_K) {
    if (!m->has) { m->has = 1; m->w.first = key; HCLT fresh; m->w.second = fresh; }    /* a new, empty list */
    return &m->w.second;
  }
  WPair fresh; g_anonP = fresh; g_anonP.first = key;
  return &g_anonP.second;
}
#define WMAP_INDEX(m, key) wmap_index(m, key)
/* whole-map construction / copy / move / swap (TRUSTED, as in unit dispatcher): the witness entry goes with the map; a
 * copied map holds a COPY of the callback list (a new list object: ghost identity HCLT.opaque is fresh); std::map's own
 * copy assignment does nothing on self-assignment */
#define GUARD_OF_eventCallbackListMap(s) (&(s)->listenerMutex)
#define WMAP_MEMBER_INIT(m, s, name) do { (m)->has = 0; (m)->guard = GUARD_OF_##name(s); } while (0)
#define WMAP_CTOR_COPY(d, s) do { (d)->has = (s)->has; (d)->w = (s)->w; (d)->w.second.opaque = nondet_int(); } while (0)
#define WMAP_CTOR_MOVE(d, s) do { (d)->has = (s)->has; (d)->w = (s)->w; (s)->has = 0; } while (0)
#define WMAP_ASSIGN_COPY(d, s) do { if ((d) != (s)) { _Bool __h = (s)->has; WPair __w = (s)->w; (d)->has = __h; (d)->w = __w; (d)->w.second.opaque = nondet_int(); } } while (0)
#define WMAP_ASSIGN_MOVE(d, s) do { _Bool __h = (s)->has; WPair __w = (s)->w; (s)->has = nondet_bool() && (d) == (s) ? __h : 0; (d)->has = __h; (d)->w = __w; } while (0)
#define WMAP_SWAP(a, b) do { _Bool __h = (a)->has; WPair __w = (a)->w; (a)->has = (b)->has; (a)->w = (b)->w; (b)->has = __h; (b)->w = __w; } while (0)
#define WMAP_DTOR(m) ((void)0)
#define WMAP_END(m) ((WMIt){(m), 2})
static inline _Bool wmit_ne(WMIt a, WMIt b) { __CPROVER_assert(a.m == b.m, "map iterators of the same map are compared"); return a.pos != b.pos; }
#define WMIT_NE(a, b) wmit_ne(a, b)
static inline WPair *wmit_deref(WMIt it) { __CPROVER_assert(it.pos == 0 || it.pos == 1, "map iterator is dereferenceable"); return it.pos == 0 ? &it.m->w : &g_anonP; }
#define WMIT_DEREF(it) wmit_deref(it)

/* ------------------------------------------------------------------ environment */
/* user getEvent policy (include-event form): takes its argument BY VALUE; some fixed function of the argument VALUE */
#define CONTRACT_Pol_getEvent       __CPROVER_assigns() __CPROVER_ensures(__CPROVER_return_value == (a0.id ^ 0x2a))
#define CONTRACT_Pol_getEvent__WArg __CPROVER_assigns() __CPROVER_ensures(__CPROVER_return_value == (a0.id ^ 0x2a))
/* HeterCallbackList::operator()(args...): invoked with no dispatcher mutex held; logs list, prototype, argument value */
#define NO_DLOCK (g_dmutex->depth == 0)
#define CONTRACT_HCLT_call       __CPROVER_requires(NO_DLOCK) __CPROVER_assigns(LOG) __CPROVER_ensures(g_n == __CPROVER_old(g_n) + 1 && g_cl == f && g_op == 9 && g_kind == 1 && g_cbid == a0->id)
#define CONTRACT_HCLT_call__WArg __CPROVER_requires(NO_DLOCK) __CPROVER_assigns(LOG) __CPROVER_ensures(g_n == __CPROVER_old(g_n) + 1 && g_cl == f && g_op == 9 && g_kind == 2 && g_cbid == a0->id)

/* ------------------------------------------------------------------ the dispatcher */
#define HD_FRESH(s) (__CPROVER_is_fresh(s, sizeof(*(s))) && __CPROVER_pointer_equals((s)->eventCallbackListMap.guard, &(s)->listenerMutex) && __CPROVER_pointer_equals(g_dmutex, &(s)->listenerMutex))
#define HD_OK(s) ((s)->listenerMutex.depth == 0 && g_n >= 0 && g_n < 1000000 && (!(s)->eventCallbackListMap.has || (s)->eventCallbackListMap.w.first == g_K))
#define HD_PRE(s) (HD_OK(s) && g_n < 1000)
#define WLIST(s) (&(s)->eventCallbackListMap.w.second)
#define HAS(s) ((s)->eventCallbackListMap.has)
#define HD_FRAME(s) (s)->listenerMutex.depth, g_anonP, LOG

/* lookup: the list registered for *e or nothing; one critical section of listenerMutex; the map is not changed */
#define FIND_CONTRACT \
  __CPROVER_requires(HD_FRESH(self) && __CPROVER_is_fresh(e, sizeof(int)) && HD_OK(self)) \
  __CPROVER_assigns((self)->listenerMutex.depth, g_anonP) \
  __CPROVER_ensures(self->listenerMutex.depth == 0) \
  __CPROVER_ensures((*e == g_K && HAS(self)) ==> __CPROVER_return_value == WLIST(self)) \
  __CPROVER_ensures((*e == g_K && !HAS(self)) ==> __CPROVER_return_value == NULL) \
  __CPROVER_ensures((*e != g_K) ==> (__CPROVER_return_value == NULL || (__CPROVER_return_value == &g_anonP.second && g_anonP.first == *e)))
#define CONTRACT_HDI_doFindCallableList FIND_CONTRACT
#define CONTRACT_HDX_doFindCallableList FIND_CONTRACT

/* dispatch: KEY = the event (ghost expression over the pre-state), ARG = the argument value as the caller passed it,
 * KIND = the prototype selected for the argument type.  Exactly the list registered for KEY is invoked, once, through
 * the overload of that prototype, with ARG; a key without list invokes nothing. */
#define DISPATCH_POST(KEY, ARG, KIND) \
  __CPROVER_ensures(HD_OK(self)) \
  __CPROVER_ensures(((KEY) == g_K && HAS(self)) ==> (g_n == __CPROVER_old(g_n) + 1 && g_cl == WLIST(self) && g_kind == (KIND) && g_cbid == (ARG))) \
  __CPROVER_ensures(((KEY) == g_K && !HAS(self)) ==> g_n == __CPROVER_old(g_n)) \
  __CPROVER_ensures(((KEY) != g_K) ==> (g_n == __CPROVER_old(g_n) || (g_n == __CPROVER_old(g_n) + 1 && g_cl == &g_anonP.second && g_anonP.first == (KEY) && g_kind == (KIND) && g_cbid == (ARG))))
#define OLD_ID __CPROVER_old(first->id)
#define LVALUE_KEPT __CPROVER_ensures(first->id == __CPROVER_old(first->id))       /* an lvalue argument of the caller is never moved from */
#define DISPATCH_I(T, KIND) \
  __CPROVER_requires(HD_FRESH(self) && __CPROVER_is_fresh(first, sizeof(T)) && HD_PRE(self)) \
  __CPROVER_assigns(HD_FRAME(self), first->id) \
  DISPATCH_POST(OLD_ID ^ 0x2a, OLD_ID, KIND)
/* include-event form: the first argument is BOTH the source of the event and the first argument of the listeners */
#define CONTRACT_HDI_doDispatch__V   DISPATCH_I(VArg, 1) LVALUE_KEPT
#define CONTRACT_HDI_doDispatch__V_2 DISPATCH_I(VArg, 1)
#define CONTRACT_HDI_doDispatch__W   DISPATCH_I(WArg, 2) LVALUE_KEPT
#define CONTRACT_HDI_doDispatch__W_2 DISPATCH_I(WArg, 2)
/* exclude-event form, default getEvent: the event is the separate first argument */
#define DISPATCH_X(T, KIND) \
  __CPROVER_requires(HD_FRESH(self) && __CPROVER_is_fresh(first, sizeof(int)) && __CPROVER_is_fresh(args, sizeof(T)) && HD_PRE(self)) \
  __CPROVER_assigns(HD_FRAME(self), args->id) \
  DISPATCH_POST(__CPROVER_old(*first), __CPROVER_old(args->id), KIND)
#define CONTRACT_HDX_doDispatch__int   DISPATCH_X(VArg, 1) __CPROVER_ensures(args->id == __CPROVER_old(args->id))
#define CONTRACT_HDX_doDispatch__int_2 DISPATCH_X(WArg, 2)
/* the public entry forwards its arguments unchanged */
#define CONTRACT_HDI_dispatch__VArg   DISPATCH_I(VArg, 1) LVALUE_KEPT
#define CONTRACT_HDI_dispatch__VArg_2 DISPATCH_I(VArg, 1)
#define CONTRACT_HDI_dispatch__WArg   DISPATCH_I(WArg, 2) LVALUE_KEPT
#define CONTRACT_HDI_dispatch__WArg_2 DISPATCH_I(WArg, 2)
#define CONTRACT_HDX_dispatch__int    DISPATCH_X(VArg, 1) __CPROVER_ensures(args->id == __CPROVER_old(args->id))
#define CONTRACT_HDX_dispatch__int_2  DISPATCH_X(WArg, 2)

/* ------------------------------------------------------------------ listener management (C04 "per event every listener-management operation behaves
 * exactly like the corresponding callback-list operation", C14): each operation is THE corresponding operation of the
 * heterogeneous callback list registered for that event - exactly one, with the caller's callback / handle, its result
 * returned unchanged - and touches no other event's list; adding creates the event's list if there is none; the map is
 * read and changed only with listenerMutex held (guard assertion in the map primitives) and the mutex is released on
 * return; remove and empty run on the list with the dispatcher's mutex already released (they take the list's own). */
#define B01(b) ((b) == 0 || (b) == 1)
#define HEQ(a, b) ((a).index == (b).index && (a).p == (b).p)
#define OPLOG(OP) (B01(g_rb) && g_n == __CPROVER_old(g_n) + 1 && g_cl == self && g_op == (OP))
#define CONTRACT_HCLT_append      __CPROVER_assigns(LOG) __CPROVER_ensures(OPLOG(1) && g_cb == (const void *)a0 && HEQ(__CPROVER_return_value, g_rh))
#define CONTRACT_HCLT_append__CbW __CPROVER_assigns(LOG) __CPROVER_ensures(OPLOG(1) && g_cb == (const void *)a0 && HEQ(__CPROVER_return_value, g_rh))
#define CONTRACT_HCLT_prepend     __CPROVER_assigns(LOG) __CPROVER_ensures(OPLOG(2) && g_cb == (const void *)a0 && HEQ(__CPROVER_return_value, g_rh))
#define CONTRACT_HCLT_insert      __CPROVER_assigns(LOG) __CPROVER_ensures(OPLOG(3) && g_cb == (const void *)a0 && HEQ(g_hp, *a1) && HEQ(__CPROVER_return_value, g_rh))
#define CONTRACT_HCLT_remove      __CPROVER_requires(NO_DLOCK) __CPROVER_assigns(LOG) __CPROVER_ensures(OPLOG(4) && HEQ(g_hp, *a0) && __CPROVER_return_value == g_rb)
#define CONTRACT_HCLT_empty       __CPROVER_requires(NO_DLOCK) __CPROVER_assigns(LOG) __CPROVER_ensures(OPLOG(5) && __CPROVER_return_value == g_rb)
#define MG_FRAME(s) (s)->eventCallbackListMap.has, (s)->eventCallbackListMap.w, HD_FRAME(s)
#define ADD_CONTRACT(OP, CBT, EXTRA_REQ, EXTRA_ENS) \
  __CPROVER_requires(HD_FRESH(self) && __CPROVER_is_fresh(event, sizeof(int)) && __CPROVER_is_fresh(callback, sizeof(CBT)) && HD_PRE(self) EXTRA_REQ) \
  __CPROVER_assigns(MG_FRAME(self)) \
  __CPROVER_ensures(HD_OK(self) && g_n == __CPROVER_old(g_n) + 1 && g_op == (OP) && g_cb == (const void *)callback && HEQ(__CPROVER_return_value, g_rh) EXTRA_ENS) \
  __CPROVER_ensures(*event == g_K ? (HAS(self) && g_cl == WLIST(self)) \
                                  : (HAS(self) == __CPROVER_old(HAS(self)) && g_cl == &g_anonP.second && g_anonP.first == *event))
#define CONTRACT_HDX_appendListener__CbV  ADD_CONTRACT(1, CbV, , )
#define CONTRACT_HDX_appendListener__CbW  ADD_CONTRACT(1, CbW, , )
#define CONTRACT_HDX_prependListener__CbV ADD_CONTRACT(2, CbV, , )
#define CONTRACT_HDX_insertListener__CbV  ADD_CONTRACT(3, CbV, && __CPROVER_is_fresh(before, sizeof(Handle)), && HEQ(g_hp, *before))
#define FOUND_OP(OP, RESULT, NONE) \
  __CPROVER_ensures(HD_OK(self) && HAS(self) == __CPROVER_old(HAS(self))) \
  __CPROVER_ensures((*event == g_K && HAS(self)) ==> (g_n == __CPROVER_old(g_n) + 1 && g_op == (OP) && g_cl == WLIST(self) && __CPROVER_return_value == (RESULT))) \
  __CPROVER_ensures((*event == g_K && !HAS(self)) ==> (g_n == __CPROVER_old(g_n) && __CPROVER_return_value == (NONE))) \
  __CPROVER_ensures((*event != g_K) ==> ((g_n == __CPROVER_old(g_n) && __CPROVER_return_value == (NONE)) || \
                                        (g_n == __CPROVER_old(g_n) + 1 && g_op == (OP) && g_cl == &g_anonP.second && g_anonP.first == *event && __CPROVER_return_value == (RESULT))))
#define CONTRACT_HDX_removeListener \
  __CPROVER_requires(HD_FRESH(self) && __CPROVER_is_fresh(event, sizeof(int)) && HD_PRE(self)) \
  __CPROVER_assigns(HD_FRAME(self)) \
  FOUND_OP(4, g_rb, 0) \
  __CPROVER_ensures(g_n == __CPROVER_old(g_n) + 1 ==> HEQ(g_hp, handle))
#define CONTRACT_HDX_hasAnyListener \
  __CPROVER_requires(HD_FRESH(self) && __CPROVER_is_fresh(event, sizeof(int)) && HD_PRE(self)) \
  __CPROVER_assigns(HD_FRAME(self)) \
  FOUND_OP(5, !g_rb, 0)

/* ------------------------------------------------------------------ C10 / C20: construction, assignment, swap.  A constructed dispatcher has a defined state
 * whatever its storage held before (mutex free, map guarded by its OWN mutex); a copy has the listeners of the source in
 * lists of its own; a move / move assignment takes them over; swap exchanges them; assignment from itself keeps the same
 * list objects (the same handles stay valid) */
#define HD2_FRESH(a, b) (__CPROVER_is_fresh(a, sizeof(HDX)) && __CPROVER_is_fresh(b, sizeof(HDX)))
#define HD_SELF_OR_FRESH (__CPROVER_is_fresh(self, sizeof(HDX)) && (__CPROVER_pointer_equals(other, self) || __CPROVER_is_fresh(other, sizeof(HDX))))
#define CONTRACT_HDX_ctor \
  __CPROVER_requires(__CPROVER_is_fresh(self, sizeof(HDX))) __CPROVER_assigns(__CPROVER_object_whole(self)) \
  __CPROVER_ensures(!HAS(self) && self->listenerMutex.depth == 0 && self->eventCallbackListMap.guard == &self->listenerMutex)
#define CONTRACT_HDX_ctor_copy \
  __CPROVER_requires(HD2_FRESH(self, other)) __CPROVER_assigns(__CPROVER_object_whole(self)) \
  __CPROVER_ensures(HAS(self) == HAS(other) && (HAS(self) ==> self->eventCallbackListMap.w.first == other->eventCallbackListMap.w.first) && self->listenerMutex.depth == 0 && self->eventCallbackListMap.guard == &self->listenerMutex) \
  __CPROVER_ensures(HAS(other) == __CPROVER_old(HAS(other)) && other->eventCallbackListMap.w.second.opaque == __CPROVER_old(other->eventCallbackListMap.w.second.opaque))
#define CONTRACT_HDX_ctor_move \
  __CPROVER_requires(HD2_FRESH(self, other)) __CPROVER_assigns(__CPROVER_object_whole(self), other->eventCallbackListMap.has) \
  __CPROVER_ensures(HAS(self) == __CPROVER_old(HAS(other)) && (HAS(self) ==> self->eventCallbackListMap.w.second.opaque == __CPROVER_old(other->eventCallbackListMap.w.second.opaque)) && self->listenerMutex.depth == 0 && self->eventCallbackListMap.guard == &self->listenerMutex)
#define CONTRACT_HDX_assign_copy \
  __CPROVER_requires(HD_SELF_OR_FRESH) \
  __CPROVER_assigns(self->eventCallbackListMap.has, self->eventCallbackListMap.w) \
  __CPROVER_ensures(HAS(self) == __CPROVER_old(HAS(other)) && HAS(other) == __CPROVER_old(HAS(other)) && __CPROVER_return_value == self) \
  __CPROVER_ensures(other == self ==> self->eventCallbackListMap.w.second.opaque == __CPROVER_old(self->eventCallbackListMap.w.second.opaque))
#define CONTRACT_HDX_assign_move \
  __CPROVER_requires(HD_SELF_OR_FRESH) \
  __CPROVER_assigns(self->eventCallbackListMap.has, self->eventCallbackListMap.w, other->eventCallbackListMap.has) \
  __CPROVER_ensures((other != self ==> (HAS(self) == __CPROVER_old(HAS(other)) && (HAS(self) ==> self->eventCallbackListMap.w.second.opaque == __CPROVER_old(other->eventCallbackListMap.w.second.opaque)))) && __CPROVER_return_value == self)
#define CONTRACT_HDX_swap \
  __CPROVER_requires(HD_SELF_OR_FRESH) \
  __CPROVER_assigns(self->eventCallbackListMap.has, self->eventCallbackListMap.w, other->eventCallbackListMap.has, other->eventCallbackListMap.w) \
  __CPROVER_ensures(HAS(self) == __CPROVER_old(HAS(other)) && HAS(other) == __CPROVER_old(HAS(self))) \
  __CPROVER_ensures(self->eventCallbackListMap.w.second.opaque == __CPROVER_old(other->eventCallbackListMap.w.second.opaque) && other->eventCallbackListMap.w.second.opaque == __CPROVER_old(self->eventCallbackListMap.w.second.opaque))
