/* unit "eventutil": the helper templates of utilities/eventutil.h; list and dispatcher are environment */
typedef struct Node Node;
typedef struct Handle { Node *p; } Handle;
typedef struct VArg { int id; } VArg;
typedef struct CLT { int opaque; } CLT;
typedef struct EDT { int opaque; } EDT;
typedef void (*FnPtr)(VArg);          /* a comparable callback type (function pointer) */
