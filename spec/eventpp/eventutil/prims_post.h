/* spec for unit "eventutil" (C01: "the hasListener / removeListener helpers always describe that same content") */
extern int g_rm_n; extern void *g_rm_target; extern Node *g_rm_h; extern int g_rm_ev;      /* log of remove / removeListener calls on the target */
extern int g_fe_n; extern void *g_fe_target; extern int g_fe_ev;                           /* log of forEachIf calls */
extern _Bool g_fe_found_val; extern _Bool *g_fe_found; extern void *g_fe_cap_target; extern FnPtr *g_fe_cap_cb; extern int *g_fe_cap_ev;
#define RM_LOG g_rm_n, g_rm_target, g_rm_h, g_rm_ev
#define FE_LOG g_fe_n, g_fe_target, g_fe_ev, g_fe_found, g_fe_found_val, g_fe_cap_target, g_fe_cap_cb, g_fe_cap_ev
/* environment: remove on the list / dispatcher (C01 / C04 contracts as a call log) */
#define CONTRACT_CLT_remove __CPROVER_assigns(RM_LOG) __CPROVER_ensures(g_rm_n == __CPROVER_old(g_rm_n) + 1 && g_rm_target == (void *)self && g_rm_h == a0->p)
#define CONTRACT_EDT_removeListener __CPROVER_assigns(RM_LOG) __CPROVER_ensures(g_rm_n == __CPROVER_old(g_rm_n) + 1 && g_rm_target == (void *)self && g_rm_h == a1.p && g_rm_ev == *a0)
/* environment: forEachIf of the target (C01 contract: calls the visitor on the callbacks in list order until it returns
 * false); it may set *found and make the visitor's remove calls; logged: on which target, with which captures */
#define FE_STUB_L(FOUND, EXTRA) __CPROVER_assigns(*(FOUND), FE_LOG, RM_LOG) \
  __CPROVER_ensures(g_fe_n == __CPROVER_old(g_fe_n) + 1 && g_fe_target == (void *)self && g_fe_found == (FOUND) && (g_fe_found_val == 0 || g_fe_found_val == 1) && *(FOUND) == g_fe_found_val && (EXTRA))
#define CONTRACT_CLT_forEachIf__removeListener__CLT__lambda0 FE_STUB_L(a0.cap_found, g_fe_cap_target == (void *)a0.cap_callbackList && g_fe_cap_cb == a0.cap_callback)
#define CONTRACT_CLT_forEachIf__hasListener__CLT__lambda0 FE_STUB_L(a0.cap_found, g_fe_cap_cb == a0.cap_callback)
#define CONTRACT_CLT_forEachIf__hasAnyListener__CLT__lambda0 FE_STUB_L(a0.cap_found, 1)
#define CONTRACT_EDT_forEachIf__removeListener__EDT__lambda0 FE_STUB_L(a1.cap_found, g_fe_ev == *a0 && g_fe_cap_target == (void *)a1.cap_dispatcher && g_fe_cap_cb == a1.cap_listener && g_fe_cap_ev == a1.cap_event)
#define CONTRACT_EDT_forEachIf__hasListener__EDT__lambda0 FE_STUB_L(a1.cap_found, g_fe_ev == *a0 && g_fe_cap_cb == a1.cap_listener)
#define CONTRACT_EDT_forEachIf__hasAnyListener__EDT__lambda0 FE_STUB_L(a1.cap_found, g_fe_ev == *a0)

/* ------------------------------------------------------------------ the visitors: what they do with ONE callback of the list */
#define V_PRE(CB) (__CPROVER_is_fresh(__c, sizeof(*__c)) && __CPROVER_is_fresh(__c->cap_found, sizeof(_Bool)) && __CPROVER_is_fresh(CB, sizeof(FnPtr)) && g_rm_n >= 0 && g_rm_n < 1000)
/* removeListener: the FIRST callback equal to the argument is removed through its own handle, and the scan stops there */
#define CONTRACT_removeListener__CLT__lambda0_call \
  __CPROVER_requires(V_PRE(item) && __CPROVER_is_fresh(handle, sizeof(Handle)) && __CPROVER_is_fresh(__c->cap_callback, sizeof(FnPtr)) && __CPROVER_is_fresh(__c->cap_callbackList, sizeof(CLT))) \
  __CPROVER_assigns(*__c->cap_found, RM_LOG) \
  __CPROVER_ensures(*item == *__c->cap_callback ? (*__c->cap_found && g_rm_n == __CPROVER_old(g_rm_n) + 1 && g_rm_target == (void *)__c->cap_callbackList && g_rm_h == handle->p && !__CPROVER_return_value) \
                                                : (*__c->cap_found == __CPROVER_old(*__c->cap_found) && g_rm_n == __CPROVER_old(g_rm_n) && __CPROVER_return_value))
#define CONTRACT_removeListener__EDT__lambda0_call \
  __CPROVER_requires(V_PRE(item) && __CPROVER_is_fresh(handle, sizeof(Handle)) && __CPROVER_is_fresh(__c->cap_listener, sizeof(FnPtr)) && __CPROVER_is_fresh(__c->cap_dispatcher, sizeof(EDT)) && __CPROVER_is_fresh(__c->cap_event, sizeof(int))) \
  __CPROVER_assigns(*__c->cap_found, RM_LOG) \
  __CPROVER_ensures(*item == *__c->cap_listener ? (*__c->cap_found && g_rm_n == __CPROVER_old(g_rm_n) + 1 && g_rm_target == (void *)__c->cap_dispatcher && g_rm_h == handle->p && g_rm_ev == *__c->cap_event && !__CPROVER_return_value) \
                                                : (*__c->cap_found == __CPROVER_old(*__c->cap_found) && g_rm_n == __CPROVER_old(g_rm_n) && __CPROVER_return_value))
/* hasListener: found exactly when a callback equals the argument; nothing is modified */
#define CONTRACT_hasListener__CLT__lambda0_call \
  __CPROVER_requires(V_PRE(item) && __CPROVER_is_fresh(__c->cap_callback, sizeof(FnPtr))) \
  __CPROVER_assigns(*__c->cap_found) \
  __CPROVER_ensures(*item == *__c->cap_callback ? (*__c->cap_found && !__CPROVER_return_value) : (*__c->cap_found == __CPROVER_old(*__c->cap_found) && __CPROVER_return_value))
#define CONTRACT_hasListener__EDT__lambda0_call \
  __CPROVER_requires(V_PRE(item) && __CPROVER_is_fresh(__c->cap_listener, sizeof(FnPtr))) \
  __CPROVER_assigns(*__c->cap_found) \
  __CPROVER_ensures(*item == *__c->cap_listener ? (*__c->cap_found && !__CPROVER_return_value) : (*__c->cap_found == __CPROVER_old(*__c->cap_found) && __CPROVER_return_value))
/* hasAnyListener: any callback at all */
#define ANY_CONTRACT \
  __CPROVER_requires(__CPROVER_is_fresh(__c, sizeof(*__c)) && __CPROVER_is_fresh(__c->cap_found, sizeof(_Bool))) \
  __CPROVER_assigns(*__c->cap_found) \
  __CPROVER_ensures(*__c->cap_found && !__CPROVER_return_value)
#define CONTRACT_hasAnyListener__CLT__lambda0_call ANY_CONTRACT
#define CONTRACT_hasAnyListener__EDT__lambda0_call ANY_CONTRACT

/* ------------------------------------------------------------------ the helpers: one forEachIf over the target (of the event), with a visitor that captures the
 * target, the event and the callback passed in; the result is what the visitor found, false on an empty scan */
#define H_PRE (g_fe_n >= 0 && g_fe_n < 1000 && g_rm_n >= 0 && g_rm_n < 1000)
#define CONTRACT_removeListener__CLT \
  __CPROVER_requires(__CPROVER_is_fresh(callbackList, sizeof(CLT)) && __CPROVER_is_fresh(callback, sizeof(FnPtr)) && H_PRE) \
  __CPROVER_assigns(FE_LOG, RM_LOG) \
  __CPROVER_ensures(g_fe_n == __CPROVER_old(g_fe_n) + 1 && __CPROVER_return_value == g_fe_found_val && g_fe_target == (void *)callbackList && g_fe_cap_target == (void *)callbackList && g_fe_cap_cb == callback)
#define CONTRACT_hasListener__CLT \
  __CPROVER_requires(__CPROVER_is_fresh(callbackList, sizeof(CLT)) && __CPROVER_is_fresh(callback, sizeof(FnPtr)) && H_PRE) \
  __CPROVER_assigns(FE_LOG, RM_LOG) \
  __CPROVER_ensures(g_fe_n == __CPROVER_old(g_fe_n) + 1 && __CPROVER_return_value == g_fe_found_val && g_fe_target == (void *)callbackList && g_fe_cap_cb == callback)
#define CONTRACT_hasAnyListener__CLT \
  __CPROVER_requires(__CPROVER_is_fresh(callbackList, sizeof(CLT)) && H_PRE) \
  __CPROVER_assigns(FE_LOG, RM_LOG) \
  __CPROVER_ensures(g_fe_n == __CPROVER_old(g_fe_n) + 1 && __CPROVER_return_value == g_fe_found_val && g_fe_target == (void *)callbackList)
#define CONTRACT_removeListener__EDT \
  __CPROVER_requires(__CPROVER_is_fresh(dispatcher, sizeof(EDT)) && __CPROVER_is_fresh(event, sizeof(int)) && __CPROVER_is_fresh(listener, sizeof(FnPtr)) && H_PRE) \
  __CPROVER_assigns(FE_LOG, RM_LOG) \
  __CPROVER_ensures(g_fe_n == __CPROVER_old(g_fe_n) + 1 && __CPROVER_return_value == g_fe_found_val && g_fe_target == (void *)dispatcher && g_fe_ev == *event && g_fe_cap_target == (void *)dispatcher && g_fe_cap_cb == listener && g_fe_cap_ev == event)
#define CONTRACT_hasListener__EDT \
  __CPROVER_requires(__CPROVER_is_fresh(dispatcher, sizeof(EDT)) && __CPROVER_is_fresh(event, sizeof(int)) && __CPROVER_is_fresh(listener, sizeof(FnPtr)) && H_PRE) \
  __CPROVER_assigns(FE_LOG, RM_LOG) \
  __CPROVER_ensures(g_fe_n == __CPROVER_old(g_fe_n) + 1 && __CPROVER_return_value == g_fe_found_val && g_fe_target == (void *)dispatcher && g_fe_ev == *event && g_fe_cap_cb == listener)
#define CONTRACT_hasAnyListener__EDT \
  __CPROVER_requires(__CPROVER_is_fresh(dispatcher, sizeof(EDT)) && __CPROVER_is_fresh(event, sizeof(int)) && H_PRE) \
  __CPROVER_assigns(FE_LOG, RM_LOG) \
  __CPROVER_ensures(g_fe_n == __CPROVER_old(g_fe_n) + 1 && __CPROVER_return_value == g_fe_found_val && g_fe_target == (void *)dispatcher && g_fe_ev == *event)
