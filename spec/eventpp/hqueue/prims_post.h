/* spec for unit "hqueue" (C14, run-time half; the same slot / list discipline as unit queue with ONE witness slot) */
extern Slot g_S0;                   /* the witness slot */
extern Slot g_anon;                 /* stand-in for every other slot */
extern int g_kind_was;
extern int g_kind;                  /* type of the item constructed in the witness slot: 0 none, 1 QueuedItem<tuple<VArg>>, 2 QueuedItem<tuple<WArg>> */
extern int g_argid;                 /* argument value it was enqueued with */
extern int g_event;                 /* event it was enqueued under */
extern int g_disp;                  /* how often it has been passed to directDispatch */
extern int g_pred;                  /* how often it has been shown to a predicate */
extern _Bool g_verdict;             /* the predicate's (arbitrary, fixed) answer for it */
extern _Bool g_born, g_dead;
extern unsigned long g_seq;
extern const char g_dtor_tag_ItemV, g_dtor_tag_ItemW;
#define FN_TAG(fn, T) ((DtorTag)&g_dtor_tag_##T)
void HQ_doDispatchItem__V(HQ *, ItemBase *); void HQ_doDispatchItem__W(HQ *, ItemBase *);
#define FN_PTR(f) ((DispTag)(f))
#define SRC_ASSERT(e) __CPROVER_assert(self != &g_S0 || (e), "assert() in the source (eventqueue_i.h) holds")
#define IS_W(p) ((void *)(p) == (void *)&g_S0)

/* ------------------------------------------------------------------ C14: a stored item is read as the type it was stored as (or as its base) */
#define FN_ENTRY_Slot_get__ItemV __CPROVER_assert(!IS_W(self) || g_kind == 1, "C14: a slot is read as QueuedItem<tuple<VArg>> only when it holds one (events of other prototypes are left untouched)")
#define FN_ENTRY_Slot_get__ItemW __CPROVER_assert(!IS_W(self) || g_kind == 2, "C14: a slot is read as QueuedItem<tuple<WArg>> only when it holds one (events of other prototypes are left untouched)")
#define FN_ENTRY_Slot_get__ItemBase __CPROVER_assert(!IS_W(self) || g_kind != 0, "a slot is read only while it holds an item")
/* construction of an item in a slot (BufferedUnion::set = placement new by the item's move constructor) */
#define FN_ENTRY_Slot_set__ItemV do { if (IS_W(self)) { __CPROVER_assert(g_kind == 0, "payload lifetime: no construction over a live item"); g_kind = 1; g_argid = item->arguments.a0.id; g_event = item->base_ItemBase.event; g_disp = 0; g_pred = 0; } } while (0)
#define FN_ENTRY_Slot_set__ItemW do { if (IS_W(self)) { __CPROVER_assert(g_kind == 0, "payload lifetime: no construction over a live item"); g_kind = 2; g_argid = item->arguments.a0.id; g_event = item->base_ItemBase.event; g_disp = 0; g_pred = 0; } } while (0)
/* call through the stored destructor pointer */
static inline void fnptr_call_dtor(DtorTag f, void *p)
{
  if (p == (void *)&g_S0.buffer) {
    __CPROVER_assert(g_kind != 0, "payload lifetime: destroyed exactly once");
    __CPROVER_assert(f == (g_kind == 1 ? FN_TAG(commonDtor, ItemV) : FN_TAG(commonDtor, ItemW)), "the destructor pointer is the one of the stored type");
    g_kind = 0;
  }
}
/* call through the stored dispatcher pointer: the two instantiations of this unit */
static inline void fnptr_call_disp(DispTag f, HQ *q, ItemBase *it)
{
  if (f == FN_PTR(HQ_doDispatchItem__V)) HQ_doDispatchItem__V(q, it);
  else if (f == FN_PTR(HQ_doDispatchItem__W)) HQ_doDispatchItem__W(q, it);
  else __CPROVER_assert(!((void *)it == (void *)&g_S0.buffer), "the dispatcher stored with an item is doDispatchItem of its prototype");
}
#define FNPTR_SEL(_1, _2, _3, NAME, ...) NAME
#define FNPTR_CALL3(f, q, itemref) fnptr_call_disp(f, q, &(itemref))       /* the item is passed by reference */
#define FNPTR_CALL(...) FNPTR_SEL(__VA_ARGS__, FNPTR_CALL3, fnptr_call_dtor, x)(__VA_ARGS__)

/* ------------------------------------------------------------------ TRUSTED std::list abstraction (as in unit queue, one witness) */
static inline void wl_init(WList *l) { l->len = 0; l->w = -1; l->guard = NULL; }
#define WLIST_INIT(l) wl_init(l)
#define GUARD_OF_queueList(s) (&(s)->queueListMutex)
#define GUARD_OF_freeList(s) (&(s)->freeListMutex)
#define WLIST_MEMBER_INIT(l, s, name) do { wl_init(l); (l)->guard = GUARD_OF_##name(s); } while (0)
#define WL_GUARDED(l) __CPROVER_assert((l)->guard == NULL || (l)->guard->depth == 1, "lock discipline: a shared list is changed only with its mutex held")
#define WLIST_EMPTY(l) ((l)->len == 0)
#define WLIST_BEGIN(l) ((WIt){(l), 0})
#define WLIST_END(l) ((WIt){(l), (l)->len})
static inline _Bool wit_ne(WIt a, WIt b) { __CPROVER_assert(a.l == b.l, "std::list: iterators of the same list are compared"); return a.i != b.i; }
#define WIT_NE(a, b) wit_ne(a, b)
static inline void wit_inc(WIt *p) { __CPROVER_assert(p->i >= 0 && p->i < p->l->len, "std::list: increment of a dereferenceable iterator"); p->i++; }
#define WIT_INC(p) wit_inc(p)
static inline Slot *wl_at(WList *l, long i)
{
  __CPROVER_assert(i >= 0 && i < l->len, "std::list: element access inside the list");
  if (l->w == i) return &g_S0;
  Slot fresh; g_anon = fresh;
  return &g_anon;
}
#define WIT_DEREF(it) wl_at((it).l, (it).i)
#define WLIST_FRONT(l) wl_at(l, 0)
static inline void wl_swap(WList *a, WList *b)
{
  WL_GUARDED(a); WL_GUARDED(b);
  long t = a->len; a->len = b->len; b->len = t;
  t = a->w; a->w = b->w; b->w = t;
}
#define WLIST_SWAP(a, b) wl_swap(a, b)
extern WList *g_rm_list; extern long g_rm_idx; extern WList *g_ins_list; extern long g_ins_idx;
static inline void wl_splice_all(WList *d, WIt pos, WList *s)
{
  __CPROVER_assert(pos.l == d && pos.i >= 0 && pos.i <= d->len && d != s, "std::list::splice: position belongs to the destination");
  WL_GUARDED(d); WL_GUARDED(s);
  if (s->w >= 0) { __CPROVER_assert(d->w < 0, "a slot is in one list only"); d->w = pos.i + s->w; }
  else if (d->w >= pos.i) d->w += s->len;
  d->len += s->len; s->len = 0; s->w = -1;
}
#define WLIST_SPLICE_ALL(d, pos, s) wl_splice_all(d, pos, s)
static inline void wl_splice_one(WList *d, WIt pos, WList *s, WIt it)
{
  __CPROVER_assert(pos.l == d && pos.i >= 0 && pos.i <= d->len, "std::list::splice: position belongs to the destination");
  __CPROVER_assert(it.l == s && it.i >= 0 && it.i < s->len && d != s, "std::list::splice: iterator is dereferenceable in the source");
  WL_GUARDED(d); WL_GUARDED(s);
  _Bool moved = 0;
  if (s->w == it.i) { moved = 1; s->w = -1; } else if (s->w > it.i) s->w--;
  s->len--;
  if (d->w >= pos.i) d->w++;
  if (moved) { __CPROVER_assert(d->w < 0, "a slot is in one list only"); d->w = pos.i; }
  d->len++;
  g_rm_list = s; g_rm_idx = it.i; g_ins_list = d; g_ins_idx = pos.i;
}
#define WLIST_SPLICE_ONE(d, pos, s, it) wl_splice_one(d, pos, s, it)
static inline void wit_stable(WIt *v)
{
  if (v->l == g_rm_list) { if (v->i > g_rm_idx) v->i--; else if (v->i == g_rm_idx) { v->l = g_ins_list; v->i = g_ins_idx; } }
  else if (v->l == g_ins_list && v->i >= g_ins_idx) v->i++;
}
#define WIT_STABLE(v) wit_stable(v)
void Slot_ctor(Slot *self); void Slot_dtor(Slot *self);
static inline void wl_emplace_back(WList *l)
{
  if (!g_born && nondet_bool()) { g_born = 1; Slot_ctor(&g_S0); l->w = l->len; l->len++; return; }
  l->len++;
}
#define WLIST_EMPLACE_BACK(l) wl_emplace_back(l)
static inline void wl_dtor(WList *l)
{
  __CPROVER_assert(l->len == 0, "no event is lost: a thread-local list is empty when it is destroyed (every slot taken out of the shared lists was given back)");
  if (l->w >= 0) { Slot_dtor(&g_S0); g_dead = 1; l->w = -1; }
  l->len = 0;
}
#define WLIST_DTOR(l) wl_dtor(l)
#define CONDVAR_INIT(c) ((c)->notified = 0)
#define CONDVAR_NOTIFY_ONE(c) ((c)->notified++)
#define CONDVAR_NOTIFY_ALL(c) ((c)->notified++)
#define CONDVAR_WAIT(cv, m, callfn, clos) do { _Bool __p = callfn(clos); __CPROVER_assume(__p); } while (0)
#define CONDVAR_WAIT_FOR(cv, m, callfn, clos) (callfn(clos))
#undef MUTEX_MEMBER_INIT
#define KIND_OF_queueListMutex 1
#define KIND_OF_freeListMutex 2
#define MUTEX_MEMBER_INIT(m, s, name) do { (m)->depth = 0; (m)->kind = KIND_OF_##name; } while (0)

/* ------------------------------------------------------------------ representation invariant */
#define TAGV FN_TAG(commonDtor, ItemV)
#define TAGW FN_TAG(commonDtor, ItemW)
#define SV ((ItemV *)&g_S0.buffer)
#define SW ((ItemW *)&g_S0.buffer)
#define SB ((ItemBase *)&g_S0.buffer)
/* ------------------------------------------------------------------ local copies of the witness item (processIf works on a COPY of the slot's item) */
extern _Bool g_cur_is_w; extern void *g_cur_addr;
#define FN_ENTRY_ItemV_ctor_copy do { if ((void *)__p1 == (void *)&g_S0.buffer) { g_cur_is_w = 1; g_cur_addr = (void *)self; } } while (0)
#define FN_ENTRY_ItemW_ctor_copy do { if ((void *)__p1 == (void *)&g_S0.buffer) { g_cur_is_w = 1; g_cur_addr = (void *)self; } } while (0)
#define FN_ENTRY_ItemV_dtor do { if (g_cur_is_w && (void *)self == g_cur_addr) g_cur_is_w = 0; } while (0)
#define FN_ENTRY_ItemW_dtor do { if (g_cur_is_w && (void *)self == g_cur_addr) g_cur_is_w = 0; } while (0)
#define IS_WIT(item) ((void *)(item) == (void *)&g_S0.buffer || (g_cur_is_w && (void *)(item) == g_cur_addr))
#define ITEM_ARG(item) (g_kind_was == 1 ? ((ItemV *)(item))->arguments.a0.id : ((ItemW *)(item))->arguments.a0.id)
extern int g_kind_was;              /* the prototype the witness event was enqueued for (1 / 2), kept after the slot is cleared */
#define DISP_OF(k) ((k) == 1 ? FN_PTR(HQ_doDispatchItem__V) : FN_PTR(HQ_doDispatchItem__W))
#ifdef UNIT_HQUEUEI
/* enqueue(T &&) with an rvalue instantiates doDispatchItem for FindPrototypeByArgs<List, VArg> instead of <List, VArg &>:
 * another function with the same prototype index and the same text (the extractor numbers it ...__V_2 / ...__W_2) */
void HQ_doDispatchItem__V_2(HQ *, ItemBase *); void HQ_doDispatchItem__W_2(HQ *, ItemBase *);
#define DISP_MATCH(d, k) ((d) == DISP_OF(k) || (d) == ((k) == 1 ? FN_PTR(HQ_doDispatchItem__V_2) : FN_PTR(HQ_doDispatchItem__W_2)))
#else
#define DISP_MATCH(d, k) ((d) == DISP_OF(k))
#endif
#define ITEM_INTACT(item) (((ItemBase *)(item))->callableIndex == g_kind_was - 1 && ((ItemBase *)(item))->event == g_event && DISP_MATCH(((ItemBase *)(item))->dispatcher, g_kind_was) && ITEM_ARG(item) == g_argid)
#define GHOSTS g_S0, g_anon, g_kind, g_kind_was, g_argid, g_event, g_disp, g_pred, g_born, g_dead, g_seq, g_rm_list, g_rm_idx, g_ins_list, g_ins_idx
#define SLOT_QUEUED_M (g_born && !g_dead && g_disp == 0 && (g_kind == 1 || g_kind == 2) && g_kind_was == g_kind && g_S0.dtor == (g_kind == 1 ? TAGV : TAGW) && ITEM_INTACT(&g_S0.buffer))
#undef FN_ENTRY_Slot_set__ItemV
#undef FN_ENTRY_Slot_set__ItemW
#define FN_ENTRY_Slot_set__ItemV do { if (IS_W(self)) { __CPROVER_assert(g_kind == 0, "payload lifetime: no construction over a live item"); g_kind = 1; g_kind_was = 1; g_argid = item->arguments.a0.id; g_event = item->base_ItemBase.event; g_disp = 0; g_pred = 0; } } while (0)
#define FN_ENTRY_Slot_set__ItemW do { if (IS_W(self)) { __CPROVER_assert(g_kind == 0, "payload lifetime: no construction over a live item"); g_kind = 2; g_kind_was = 2; g_argid = item->arguments.a0.id; g_event = item->base_ItemBase.event; g_disp = 0; g_pred = 0; } } while (0)

#define WL_OK_M(l) ((l).len >= 0 && (l).len < (1L << 62) && (l).w >= -1 && (l).w < (l).len)
#define SLOT_FREE_M (g_born && !g_dead && g_kind == 0 && g_S0.dtor == NULL)
#define SLOT_OK_M ((g_S0.dtor != NULL) == (g_kind != 0))
#define HQ_OK_M(q) (g_kind >= 0 && g_kind <= 2 && g_kind_was >= 0 && g_kind_was <= 2 && g_disp >= 0 && g_disp <= 2 && g_pred >= 0 && g_pred <= 2 && WL_OK_M((q)->queueList) && WL_OK_M((q)->freeList) && (q)->queueList.guard == &(q)->queueListMutex && (q)->freeList.guard == &(q)->freeListMutex && \
                    (q)->queueEmptyCounter >= 0 && (q)->queueEmptyCounter <= 1000000 && (q)->queueNotifyCounter >= 0 && (q)->queueNotifyCounter <= 1000000 && \
                    (q)->queueListConditionVariable.notified >= 0 && (q)->queueListConditionVariable.notified <= (1 << 30) && \
                    (!g_born ? ((q)->queueList.w < 0 && (q)->freeList.w < 0 && g_kind == 0 && !g_dead) \
                             : (SLOT_OK_M && !((q)->queueList.w >= 0 && (q)->freeList.w >= 0) && ((q)->queueList.w < 0 || SLOT_QUEUED_M) && ((q)->freeList.w < 0 || SLOT_FREE_M))))
static inline _Bool hq_ok(const HQ *q) { return HQ_OK_M(q); }
#define HQ_SMALL(q) ((q)->queueList.len < (1L << 40) && (q)->freeList.len < (1L << 40) && (q)->queueListConditionVariable.notified < (1 << 29) && (q)->queueEmptyCounter < 1000 && (q)->queueNotifyCounter < 1000)
#define HQ_MID(q) ((q)->queueList.len < (1L << 61) && (q)->freeList.len < (1L << 61) && (q)->queueListConditionVariable.notified < (1 << 29))
#define HQ_FRESH(s) (__CPROVER_is_fresh(s, sizeof(HQ)) && (s)->queueListMutex.kind == 1 && (s)->freeListMutex.kind == 2 && __CPROVER_pointer_equals((s)->queueList.guard, &(s)->queueListMutex) && __CPROVER_pointer_equals((s)->freeList.guard, &(s)->freeListMutex))
#define NOLOCKS(q) ((q)->queueListMutex.depth == 0 && (q)->freeListMutex.depth == 0)
#define INFLIGHT(q) ((q)->queueList.w < 0 && (q)->freeList.w < 0)
#define ALL_IN_LISTS(q) (!g_born || g_dead || (q)->queueList.w >= 0 || (q)->freeList.w >= 0)
#define DONE_M (g_born && !g_dead && g_disp == 1 && g_kind == 0 && g_S0.dtor == NULL)

/* ------------------------------------------------------------------ environment */
#define CONTRACT_Pol_getEvent2 __CPROVER_assigns() __CPROVER_ensures(__CPROVER_return_value == *a0)      /* default policy: the first argument is the event */
#define QQ ((HQ *)self)
/* a witness item that is in flight in THIS call (in neither shared list) is untouchable by re-entrant user code */
#define INFLIGHT_SAME(q, EXTRA_DISP, EXTRA_PRED) (g_dead == __CPROVER_old(g_dead)) && ((__CPROVER_old((q)->queueList.w) < 0 && __CPROVER_old((q)->freeList.w) < 0 && __CPROVER_old(g_born)) ==> (INFLIGHT(q) && g_born && g_dead == __CPROVER_old(g_dead) && g_kind == __CPROVER_old(g_kind) && g_kind_was == __CPROVER_old(g_kind_was) && \
      g_S0.dtor == __CPROVER_old(g_S0.dtor) && g_argid == __CPROVER_old(g_argid) && g_event == __CPROVER_old(g_event) && g_pred == __CPROVER_old(g_pred) + (EXTRA_PRED) && g_disp == __CPROVER_old(g_disp) + (EXTRA_DISP) && \
      ((ItemBase *)&g_S0.buffer)->callableIndex == __CPROVER_old(((ItemBase *)&g_S0.buffer)->callableIndex) && ((ItemBase *)&g_S0.buffer)->event == __CPROVER_old(((ItemBase *)&g_S0.buffer)->event) && \
      ((ItemBase *)&g_S0.buffer)->dispatcher == __CPROVER_old(((ItemBase *)&g_S0.buffer)->dispatcher) && ((ItemV *)&g_S0.buffer)->arguments.a0.id == __CPROVER_old(((ItemV *)&g_S0.buffer)->arguments.a0.id) && \
      ((ItemW *)&g_S0.buffer)->arguments.a0.id == __CPROVER_old(((ItemW *)&g_S0.buffer)->arguments.a0.id)))
#define ENV_FRAME(q) (q)->queueList.len, (q)->queueList.w, (q)->freeList.len, (q)->freeList.w, (q)->queueListConditionVariable.notified, GHOSTS
/* listeners behind directDispatch (rely): the witness event is dispatched to the listeners of ITS prototype (the stub of
 * prototype KIND requires g_kind_was == KIND), with its own event and argument values, at most once, with no mutex held
 * and the queue reporting non-empty */
#define IS_WIT_EV(a0) (a0 == &((ItemBase *)&g_S0.buffer)->event || (g_cur_is_w && a0 == &((ItemBase *)g_cur_addr)->event))
#define DD_CONTRACT(KIND) \
  __CPROVER_requires(NOLOCKS(QQ) && hq_ok(QQ) && QQ->queueEmptyCounter >= 1) \
  __CPROVER_requires(IS_WIT_EV(a0) ==> (g_kind_was == (KIND) && g_disp == 0 && *a0 == g_event && a1->id == g_argid)) \
  __CPROVER_assigns(ENV_FRAME(QQ)) \
  __CPROVER_ensures(NOLOCKS(QQ) && hq_ok(QQ) && HQ_MID(QQ) && g_seq > __CPROVER_old(g_seq)) \
  __CPROVER_ensures(INFLIGHT_SAME(QQ, (IS_WIT_EV(a0) ? 1 : 0), 0))
#define CONTRACT_DispatcherBase_directDispatch DD_CONTRACT(1)
#define CONTRACT_DispatcherBase_directDispatch__int_WArg DD_CONTRACT(2)
/* dispatch boundary used by the processing calls; proved itself below (thin) */
#ifdef OB_THIN
#define DQE_WINDOW __CPROVER_requires(HQ_FRESH(self) && (__CPROVER_pointer_equals(item, (ItemBase *)&g_S0.buffer) || __CPROVER_is_fresh(item, sizeof(ItemW))) && !g_cur_is_w)
#else
#define DQE_WINDOW
#endif
#define CONTRACT_HQ_doDispatchQueuedEvent \
  DQE_WINDOW \
  __CPROVER_requires(NOLOCKS(self) && hq_ok(self) && HQ_MID(self) && self->queueEmptyCounter >= 1) \
  __CPROVER_requires(IS_WIT(item) ==> (g_kind_was != 0 && g_disp == 0 && ITEM_INTACT(item)))                    /* exactly as enqueued, not dispatched before */ \
  __CPROVER_assigns(ENV_FRAME(self)) \
  __CPROVER_ensures(NOLOCKS(self) && hq_ok(self) && HQ_MID(self) && g_seq >= __CPROVER_old(g_seq)) \
  __CPROVER_ensures(INFLIGHT_SAME(self, (IS_WIT(item) ? 1 : 0), 0))
/* predicate boundary (rely): the witness event is shown only to a predicate of ITS prototype, once, intact */
#define PRED_BOUNDARY(KIND) \
  __CPROVER_requires(NOLOCKS(self) && hq_ok(self) && HQ_MID(self) && self->queueEmptyCounter >= 1) \
  __CPROVER_requires(IS_WIT(item) ==> (g_kind_was == (KIND) && g_kind == (KIND) && g_pred == 0 && g_disp == 0 && ITEM_INTACT(item)))     /* C14: only events of prototypes the predicate is callable with */ \
  __CPROVER_assigns(ENV_FRAME(self)) \
  __CPROVER_ensures(NOLOCKS(self) && hq_ok(self) && HQ_MID(self) && g_seq >= __CPROVER_old(g_seq)) \
  __CPROVER_ensures(INFLIGHT_SAME(self, 0, (IS_WIT(item) ? 1 : 0))) \
  __CPROVER_ensures(IS_WIT(item) ==> __CPROVER_return_value == g_verdict)
#define CONTRACT_HQ_doInvokeFuncWithQueuedEvent__PredV_ItemV PRED_BOUNDARY(1)
#define CONTRACT_HQ_doInvokeFuncWithQueuedEvent__PredW_ItemW PRED_BOUNDARY(2)

/* ------------------------------------------------------------------ processIf, one round (doProcessIf<PrototypeInfo>): loop over the batch */
#define PIF_W ( \
   (__CPROVER_loop_entry(tempList.w) < 0 ? (tempList.w < 0 && idleList.w < 0) : \
     (INFLIGHT(self) && ((tempList.w >= 0) != (idleList.w >= 0)) && tempList.w <= __CPROVER_loop_entry(tempList.w) && \
      (tempList.w >= it.i ==> (g_pred == __CPROVER_loop_entry(g_pred) && SLOT_QUEUED_M)) && \
      ((tempList.w >= 0 && tempList.w < it.i) ==> (SLOT_QUEUED_M && (g_kind == PIF_KIND ? (g_pred == __CPROVER_loop_entry(g_pred) + 1 && !g_verdict) : g_pred == __CPROVER_loop_entry(g_pred)))) && \
      (idleList.w >= 0 ==> (g_kind_was == PIF_KIND && g_pred == __CPROVER_loop_entry(g_pred) + 1 && g_verdict && DONE_M)))))
#define PIF_LOOP \
  __CPROVER_assigns(it, tempList.len, tempList.w, idleList.len, idleList.w, ENV_FRAME(self), g_cur_is_w, g_cur_addr) \
  __CPROVER_loop_invariant(it.l == &tempList && 0 <= it.i && it.i <= tempList.len && WL_OK_M(tempList) && WL_OK_M(idleList) && !g_cur_is_w) \
  __CPROVER_loop_invariant(tempList.len + idleList.len == __CPROVER_loop_entry(tempList.len)) \
  __CPROVER_loop_invariant(NOLOCKS(self) && HQ_OK_M(self) && HQ_MID(self) && self->queueEmptyCounter >= 1) \
  __CPROVER_loop_invariant(PIF_W && g_dead == __CPROVER_loop_entry(g_dead)) \
  __CPROVER_decreases(tempList.len - it.i)
#define LOOP_CONTRACT_HQ_doProcessIf__P0_PredV__loop0 PIF_LOOP

#define LOOP_CONTRACT_HQ_doProcessIf__P0_PredW__loop0 PIF_LOOP

/* statement (one round for the prototype with index KIND - 1): every queued event of that prototype is shown to the
 * predicate exactly once; accepted => dispatched exactly once as enqueued, recycled; declined => still queued, not
 * behind its old place; an event of ANOTHER prototype is not shown, not read as a wrong type (assertions in
 * BufferedUnion::get), not dispatched, and stays queued intact, not behind its old place */
#define PIF_POST (__CPROVER_old(self->queueList.w) >= 0 ==> \
   ((g_kind_was == PIF_KIND && g_pred == 1 && g_verdict) ? (DONE_M && self->freeList.w >= 0 && __CPROVER_return_value) \
       : (SLOT_QUEUED_M && self->queueList.w >= 0 && self->queueList.w <= __CPROVER_old(self->queueList.w) && g_pred == (g_kind_was == PIF_KIND ? 1 : 0))))
#define PIF_ROUND_CONTRACT(NEXT_ASSIGNS) \
  __CPROVER_requires(HQ_FRESH(self) && __CPROVER_is_fresh(func, sizeof(*func))) \
  __CPROVER_requires(NOLOCKS(self) && hq_ok(self) && HQ_SMALL(self) && ALL_IN_LISTS(self) && g_pred == 0 && !g_cur_is_w) \
  __CPROVER_assigns(self->queueList, self->freeList, self->queueListMutex.depth, self->freeListMutex.depth, self->queueEmptyCounter, self->queueListConditionVariable.notified, GHOSTS, g_cur_is_w, g_cur_addr) \
  __CPROVER_ensures(NOLOCKS(self) && hq_ok(self) && self->queueEmptyCounter == __CPROVER_old(self->queueEmptyCounter) && g_dead == __CPROVER_old(g_dead)) \
  __CPROVER_ensures(PIF_POST)
/* the whole processIf for a predicate taking VArg: only prototype 0 is a candidate, the later rounds find no further
 * prototype (the stub of the next round is the round for "no prototype": it does nothing) */
#define CONTRACT_HQ_doProcessIf__P0_PredV PIF_ROUND_CONTRACT()
#define CONTRACT_HQ_doProcessIf__P0_PredW PIF_ROUND_CONTRACT()

#ifndef PIF_KIND
#define PIF_KIND 1
#endif

/* ------------------------------------------------------------------ C11 (heterogeneous queue): whenever queueListMutex is released, an event that is out of the shared
 * lists and not consumed yet is covered by queueEmptyCounter >= 1 */
#define C11_COVERED(q) (!(g_born && !g_dead && INFLIGHT(q) && g_kind != 0 && g_disp == 0) || (q)->queueEmptyCounter >= 1)
static inline void hq_unlock_hook(Mutex *m)
{
  if (m->kind == 1) {
    HQ *q = (HQ *)((char *)m - __builtin_offsetof(HQ, queueListMutex));
    __CPROVER_assert(C11_COVERED(q), "C11: an event taken out of queueList by a processing call is covered by queueEmptyCounter >= 1 when queueListMutex is released");
  }
  mutex_unlock_(m);
}
#ifdef OB_PROCESSING
#undef MUTEX_UNLOCK
#define MUTEX_UNLOCK(m) hq_unlock_hook(m)
#endif

/* ------------------------------------------------------------------ process / processOne: every event of the batch (of either prototype) is dispatched exactly
 * once through the dispatcher stored with it, as enqueued, then recycled */
#define LOOP_CONTRACT_HQ_process__loop0 \
  __CPROVER_assigns(__begin_L0.i, ENV_FRAME(self)) \
  __CPROVER_loop_invariant(0 <= __begin_L0.i && __begin_L0.i <= tempList.len && !g_cur_is_w) \
  __CPROVER_loop_invariant(NOLOCKS(self) && HQ_OK_M(self) && HQ_MID(self) && self->queueEmptyCounter >= 1) \
  __CPROVER_loop_invariant(tempList.w >= 0 ==> (INFLIGHT(self) && (tempList.w < __begin_L0.i ? DONE_M : SLOT_QUEUED_M))) \
  __CPROVER_loop_invariant(g_dead == __CPROVER_loop_entry(g_dead)) \
  __CPROVER_decreases(tempList.len - __begin_L0.i)
#define PROC_FRAME self->queueList, self->freeList, self->queueListMutex.depth, self->freeListMutex.depth, self->queueEmptyCounter, self->queueListConditionVariable.notified, GHOSTS
#define CONTRACT_HQ_process \
  __CPROVER_requires(HQ_FRESH(self)) \
  __CPROVER_requires(NOLOCKS(self) && hq_ok(self) && HQ_SMALL(self) && ALL_IN_LISTS(self) && !g_cur_is_w) \
  __CPROVER_assigns(PROC_FRAME) \
  __CPROVER_ensures(NOLOCKS(self) && hq_ok(self) && self->queueEmptyCounter == __CPROVER_old(self->queueEmptyCounter) && g_dead == __CPROVER_old(g_dead)) \
  __CPROVER_ensures(__CPROVER_return_value == (__CPROVER_old(self->queueList.len) > 0)) \
  __CPROVER_ensures(__CPROVER_old(self->queueList.w) >= 0 ==> (DONE_M && self->freeList.w >= 0))
#define CONTRACT_HQ_processOne \
  __CPROVER_requires(HQ_FRESH(self)) \
  __CPROVER_requires(NOLOCKS(self) && hq_ok(self) && HQ_SMALL(self) && ALL_IN_LISTS(self) && !g_cur_is_w) \
  __CPROVER_assigns(PROC_FRAME) \
  __CPROVER_ensures(NOLOCKS(self) && hq_ok(self) && self->queueEmptyCounter == __CPROVER_old(self->queueEmptyCounter) && g_dead == __CPROVER_old(g_dead)) \
  __CPROVER_ensures(__CPROVER_return_value == (__CPROVER_old(self->queueList.len) > 0)) \
  __CPROVER_ensures(__CPROVER_old(self->queueList.w) == 0 ==> (DONE_M && self->freeList.w >= 0))

/* ------------------------------------------------------------------ C07 / C11: emptiness and the waiters' predicate, as for EventQueue: an event that a processing call has
 * swapped out and not finished (queueEmptyCounter > 0) counts as pending for emptyQueue, wait and waitFor alike */
#define HQ_EMPTY(q) ((q)->queueList.len == 0 && (q)->queueEmptyCounter == 0)
#define HQ_CANPROC(q) (!HQ_EMPTY(q) && (q)->queueNotifyCounter == 0)
#define CONTRACT_HQ_doEmptyQueue \
  __CPROVER_requires(HQ_FRESH(self)) \
  __CPROVER_assigns() \
  __CPROVER_ensures(__CPROVER_return_value == HQ_EMPTY(self))
#define CONTRACT_HQ_emptyQueue \
  __CPROVER_requires(HQ_FRESH(self) && NOLOCKS(self)) \
  __CPROVER_assigns(self->queueListMutex.depth) \
  __CPROVER_ensures(NOLOCKS(self) && __CPROVER_return_value == HQ_EMPTY(self))
#define CONTRACT_HQ_doCanProcess \
  __CPROVER_requires(HQ_FRESH(self)) \
  __CPROVER_assigns() \
  __CPROVER_ensures(__CPROVER_return_value == HQ_CANPROC(self))
#define CONTRACT_HQ_wait \
  __CPROVER_requires(HQ_FRESH(self) && NOLOCKS(self)) \
  __CPROVER_assigns(self->queueListMutex.depth) \
  __CPROVER_ensures(NOLOCKS(self) && HQ_CANPROC(self))
#define CONTRACT_HQ_waitFor__long_std_ratio_1_1000 \
  __CPROVER_requires(HQ_FRESH(self) && __CPROVER_is_fresh(duration, sizeof(Duration)) && NOLOCKS(self)) \
  __CPROVER_assigns(self->queueListMutex.depth) \
  __CPROVER_ensures(NOLOCKS(self) && __CPROVER_return_value == HQ_CANPROC(self))

/* ------------------------------------------------------------------ enqueue: the item is stored under the prototype selected for the argument types (compile-time
 * selection: lemma_heter_selection), with the dispatcher of that prototype, the event the policy yields and the caller's
 * argument values; it becomes the last queued event; events already queued keep their place */
#define ENQ_POST(KIND) \
  __CPROVER_ensures(NOLOCKS(self) && hq_ok(self) && self->queueList.len == __CPROVER_old(self->queueList.len) + 1) \
  __CPROVER_ensures(__CPROVER_old(self->queueList.w) >= 0 ==> self->queueList.w == __CPROVER_old(self->queueList.w)) \
  __CPROVER_ensures(self->queueList.w == __CPROVER_old(self->queueList.len) ==> (g_kind == (KIND) && g_kind_was == (KIND) && g_argid == __CPROVER_old(args->id) && g_event == __CPROVER_old(*first) && SLOT_QUEUED_M)) \
  __CPROVER_ensures(args->id == __CPROVER_old(args->id))        /* an lvalue argument of the caller is copied, not moved from */
#define ENQ_FRAME self->queueList, self->freeList, self->queueListMutex.depth, self->freeListMutex.depth, self->queueListConditionVariable.notified, GHOSTS, g_cur_is_w, g_cur_addr
#define CONTRACT_HQ_doEnqueue \
  __CPROVER_requires(HQ_FRESH(self) && __CPROVER_is_fresh(first, sizeof(int)) && __CPROVER_is_fresh(args, sizeof(VArg))) \
  __CPROVER_requires(NOLOCKS(self) && hq_ok(self) && HQ_SMALL(self) && !g_cur_is_w) \
  __CPROVER_assigns(ENQ_FRAME) \
  ENQ_POST(1)
#define CONTRACT_HQ_doEnqueue__eventpp_ArgumentPassingExcludeEvent_int \
  __CPROVER_requires(HQ_FRESH(self) && __CPROVER_is_fresh(first, sizeof(int)) && __CPROVER_is_fresh(args, sizeof(WArg))) \
  __CPROVER_requires(NOLOCKS(self) && hq_ok(self) && HQ_SMALL(self) && !g_cur_is_w) \
  __CPROVER_assigns(ENQ_FRAME) \
  ENQ_POST(2)

/* ------------------------------------------------------------------ C10 / C20: constructors.  Every member has a defined value on exit whatever the
 * storage held before (members without an initialiser stay nondeterministic in the extraction: that IS default-
 * initialisation of std::atomic<int> before C++20): a default-, copy- or move-constructed queue is empty, reports
 * empty, has notification enabled and holds no lock; pending events are not copied / moved. */
#define HQCTOR_POST (self->queueEmptyCounter == 0 && self->queueNotifyCounter == 0 && self->queueList.len == 0 && self->freeList.len == 0 && \
                     self->queueList.w < 0 && self->freeList.w < 0 && NOLOCKS(self) && self->queueListConditionVariable.notified == 0 && \
                     self->queueList.guard == &self->queueListMutex && self->freeList.guard == &self->freeListMutex && self->queueListMutex.kind == 1 && self->freeListMutex.kind == 2)
#define CONTRACT_DispatcherBase_ctor __CPROVER_assigns(self->opaque)
#define CONTRACT_DispatcherBase_ctor_copy __CPROVER_assigns(self->opaque)
#define CONTRACT_DispatcherBase_ctor_move __CPROVER_assigns(self->opaque, a0->opaque)
#define CONTRACT_HQ_ctor \
  __CPROVER_requires(__CPROVER_is_fresh(self, sizeof(HQ))) \
  __CPROVER_assigns(__CPROVER_object_whole(self)) \
  __CPROVER_ensures(HQCTOR_POST)
#define CONTRACT_HQ_ctor_copy \
  __CPROVER_requires(__CPROVER_is_fresh(self, sizeof(HQ)) && HQ_FRESH(other)) \
  __CPROVER_assigns(__CPROVER_object_whole(self)) \
  __CPROVER_ensures(HQCTOR_POST)
#define CONTRACT_HQ_ctor_move \
  __CPROVER_requires(__CPROVER_is_fresh(self, sizeof(HQ)) && HQ_FRESH(other)) \
  __CPROVER_assigns(__CPROVER_object_whole(self), other->base_DispatcherBase.opaque) \
  __CPROVER_ensures(HQCTOR_POST)

#ifdef UNIT_HQUEUEI
/* ------------------------------------------------------------------ the include-event form (unit hqueuei): the event is what the
 * getEvent policy yields from the FIRST ARGUMENT AS THE CALLER PASSED IT, and the stored argument is that same value -
 * for an lvalue (copied, the caller's object keeps its value) and for an rvalue / temporary (moved), in EVERY evaluation
 * order the language allows for the arguments of the item's constructor call (C04 / C14 "with intact arguments", C20 "no
 * result depends on unspecified evaluation order").  The user policy reads through a const reference. */
#undef CONTRACT_Pol_getEvent
#define CONTRACT_Pol_getEvent __CPROVER_assigns() __CPROVER_ensures(__CPROVER_return_value == (a0->id ^ 0x2a))
#define CONTRACT_Pol_getEvent__WArg __CPROVER_assigns() __CPROVER_ensures(__CPROVER_return_value == (a0->id ^ 0x2a))
#define ENQI_POST(KIND) \
  __CPROVER_ensures(NOLOCKS(self) && hq_ok(self) && self->queueList.len == __CPROVER_old(self->queueList.len) + 1) \
  __CPROVER_ensures(__CPROVER_old(self->queueList.w) >= 0 ==> self->queueList.w == __CPROVER_old(self->queueList.w)) \
  __CPROVER_ensures(self->queueList.w == __CPROVER_old(self->queueList.len) ==> (g_kind == (KIND) && g_kind_was == (KIND) && g_argid == __CPROVER_old(first->id) && g_event == (__CPROVER_old(first->id) ^ 0x2a) && SLOT_QUEUED_M))
#define ENQI_PRE(T) \
  __CPROVER_requires(HQ_FRESH(self) && __CPROVER_is_fresh(first, sizeof(T))) \
  __CPROVER_requires(NOLOCKS(self) && hq_ok(self) && HQ_SMALL(self) && !g_cur_is_w) \
  __CPROVER_assigns(ENQ_FRAME, first->id)
#define ENQI_LVALUE __CPROVER_ensures(first->id == __CPROVER_old(first->id))        /* an lvalue argument of the caller is copied, not moved from */
#define CONTRACT_HQ_doEnqueueI__V  ENQI_PRE(VArg) ENQI_POST(1) ENQI_LVALUE
#define CONTRACT_HQ_doEnqueueI__V_2 ENQI_PRE(VArg) ENQI_POST(1)
#define CONTRACT_HQ_doEnqueueI__W  ENQI_PRE(WArg) ENQI_POST(2) ENQI_LVALUE
#define CONTRACT_HQ_doEnqueueI__W_2 ENQI_PRE(WArg) ENQI_POST(2)
#endif

#include "exc.h"
