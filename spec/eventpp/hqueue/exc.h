/* unit "hqueue", -DMODE_EXC (C09 / C08 / C14 for HeterEventQueue slots): BufferedUnion::set under exceptions.
 * As in unit queue: ghost g_exc = an exception is propagating; copying / moving the user's argument types may raise;
 * the extractor's unwinding edges leave the function.  Proved: a slot is marked as holding an item of type U (dtor =
 * commonDtor<U>) only once that item is constructed; if the construction raises the slot is still empty, so neither
 * ~BufferedUnion nor a later reader treats dead bytes as a U. */
#ifdef MODE_EXC
static inline void exc_maybe(void) { if (!g_exc && nondet_bool()) g_exc = 1; }
#undef VArg_COPY
#undef VArg_MOVE
#undef WArg_COPY
#undef WArg_MOVE
#undef TupV_COPY
#undef TupV_MOVE
#undef TupW_COPY
#undef TupW_MOVE
#define VArg_COPY(p) ({ exc_maybe(); *(p); })
#define VArg_MOVE(p) ({ exc_maybe(); VArg __t = *(p); (p)->id = nondet_int(); __t; })
#define WArg_COPY(p) ({ exc_maybe(); *(p); })
#define WArg_MOVE(p) ({ exc_maybe(); WArg __t = *(p); (p)->id = nondet_int(); __t; })
#define TupV_COPY(p) ({ exc_maybe(); *(p); })
#define TupV_MOVE(p) ({ exc_maybe(); TupV __t = *(p); (p)->a0.id = nondet_int(); __t; })
#define TupW_COPY(p) ({ exc_maybe(); *(p); })
#define TupW_MOVE(p) ({ exc_maybe(); TupW __t = *(p); (p)->a0.id = nondet_int(); __t; })
/* the ghost "an item of kind k is live in the witness slot" follows the type tag */
#define SLOT_SET_dtor(s, v) ((s)->dtor = (v), ((IS_W(s) && (v) != NULL) ? (g_kind = ((v) == TAGV ? 1 : 2), g_kind_was = g_kind) : 0), (s)->dtor)
#undef FN_ENTRY_Slot_set__ItemV
#undef FN_ENTRY_Slot_set__ItemW
#define FN_ENTRY_Slot_set__ItemV do { if (IS_W(self)) { __CPROVER_assert(g_kind == 0, "payload lifetime: no construction over a live item"); g_argid = item->arguments.a0.id; g_event = item->base_ItemBase.event; g_disp = 0; g_pred = 0; } } while (0)
#define FN_ENTRY_Slot_set__ItemW FN_ENTRY_Slot_set__ItemV
#define SLOT_SET_CONTRACT(T, TAG, K, PAY) \
  __CPROVER_requires(__CPROVER_pointer_equals(self, &g_S0) && __CPROVER_is_fresh(item, sizeof(T)) && SLOT_FREE_M && !g_exc) \
  __CPROVER_assigns(g_S0, item->arguments.a0.id, g_kind, g_kind_was, g_argid, g_event, g_disp, g_pred, g_exc) \
  __CPROVER_ensures(g_exc ? (g_S0.dtor == NULL && g_kind == 0) \
                          : (g_S0.dtor == (TAG) && g_kind == (K) && g_kind_was == (K) && (PAY)->arguments.a0.id == __CPROVER_old(item->arguments.a0.id) && SB->event == __CPROVER_old(item->base_ItemBase.event) && \
                             SB->callableIndex == __CPROVER_old(item->base_ItemBase.callableIndex) && SB->dispatcher == __CPROVER_old(item->base_ItemBase.dispatcher)))
#define CONTRACT_Slot_set__ItemV SLOT_SET_CONTRACT(ItemV, TAGV, 1, SV)
#define CONTRACT_Slot_set__ItemW SLOT_SET_CONTRACT(ItemW, TAGW, 2, SW)
#endif
