/* unit "hqueue", -DMODE_EXC (C09 / C08 / C14 for HeterEventQueue slots): BufferedUnion::set under exceptions.
 * As in unit queue: ghost g_exc = an exception is propagating; copying / moving the user's argument types may raise;
 * the extractor's unwinding edges leave the function.  Proved: a slot is marked as holding an item of type U (dtor =
 * commonDtor<U>) only once that item is constructed; if the construction raises the slot is still empty, so neither
 * ~BufferedUnion nor a later reader treats dead bytes as a U. */
#ifdef MODE_EXC
static inline void exc_maybe(void) { if (!g_exc && nondet_bool()) g_exc = 1; }
#undef VArg_COPY
#undef VArg_MOVE
#undef WArg_COPY
#undef WArg_MOVE
#undef TupV_COPY
#undef TupV_MOVE
#undef TupW_COPY
#undef TupW_MOVE
#define VArg_COPY(p) ({ exc_maybe(); *(p); })
#define VArg_MOVE(p) ({ exc_maybe(); VArg __t = *(p); (p)->id = nondet_int(); __t; })
#define WArg_COPY(p) ({ exc_maybe(); *(p); })
#define WArg_MOVE(p) ({ exc_maybe(); WArg __t = *(p); (p)->id = nondet_int(); __t; })
#define TupV_COPY(p) ({ exc_maybe(); *(p); })
#define TupV_MOVE(p) ({ exc_maybe(); TupV __t = *(p); (p)->a0.id = nondet_int(); __t; })
#define TupW_COPY(p) ({ exc_maybe(); *(p); })
#define TupW_MOVE(p) ({ exc_maybe(); TupW __t = *(p); (p)->a0.id = nondet_int(); __t; })
/* the ghost "an item of kind k is live in the witness slot" is set when the item's constructor RETURNS normally on the
 * slot's buffer (exit hook of the extracted move constructor), not when BufferedUnion::set is entered */
#undef FN_ENTRY_Slot_set__ItemV
#undef FN_ENTRY_Slot_set__ItemW
#define FN_ENTRY_Slot_set__ItemV do { if (IS_W(self)) { __CPROVER_assert(g_kind == 0, "payload lifetime: no construction over a live item"); g_argid = item->arguments.a0.id; g_event = item->base_ItemBase.event; g_disp = 0; g_pred = 0; } } while (0)
#define FN_ENTRY_Slot_set__ItemW FN_ENTRY_Slot_set__ItemV
#define FN_EXIT_ItemV_ctor_move do { if ((void *)self == (void *)&g_S0.buffer && !g_exc) { g_kind = 1; g_kind_was = 1; } } while (0)
#define FN_EXIT_ItemW_ctor_move do { if ((void *)self == (void *)&g_S0.buffer && !g_exc) { g_kind = 2; g_kind_was = 2; } } while (0)
#define SLOT_SET_CONTRACT(T, TAG, K, PAY) \
  __CPROVER_requires(__CPROVER_pointer_equals(self, &g_S0) && __CPROVER_is_fresh(item, sizeof(T)) && SLOT_FREE_M && !g_exc) \
  __CPROVER_assigns(g_S0, item->arguments.a0.id, g_kind, g_kind_was, g_argid, g_event, g_disp, g_pred, g_exc) \
  __CPROVER_ensures(g_exc ? (g_S0.dtor == NULL && g_kind == 0) \
                          : (g_S0.dtor == (TAG) && g_kind == (K) && g_kind_was == (K) && (PAY)->arguments.a0.id == __CPROVER_old(item->arguments.a0.id) && SB->event == __CPROVER_old(item->base_ItemBase.event) && \
                             SB->callableIndex == __CPROVER_old(item->base_ItemBase.callableIndex) && SB->dispatcher == __CPROVER_old(item->base_ItemBase.dispatcher)))
#define CONTRACT_Slot_set__ItemV SLOT_SET_CONTRACT(ItemV, TAGV, 1, SV)
#define CONTRACT_Slot_set__ItemW SLOT_SET_CONTRACT(ItemW, TAGW, 2, SW)
/* on an unwinding edge a thread-local list may die holding slots: they are freed, and an item still constructed in one
 * is destroyed through its stored destructor (exactly once: assertion in fnptr_call_dtor).  Which events may be
 * discarded that way is the business of each contract (enqueue: none) */
static inline void wl_dtor_exc(WList *l) { if (l->w >= 0) { Slot_dtor(&g_S0); g_S0.dtor = NULL; /* the node is gone */ g_dead = 1; l->w = -1; } l->len = 0; }
#undef WLIST_DTOR
#define WLIST_DTOR(l) wl_dtor_exc(l)
/* emplace_back allocates */
#undef WLIST_EMPLACE_BACK
#define WLIST_EMPLACE_BACK(l) do { exc_maybe(); if (!g_exc) wl_emplace_back(l); } while (0)
/* enqueue: strong guarantee.  If copying the arguments, allocating a slot or moving the item into it raises, the
 * pending events are exactly as before (same number, the witness event at its place and intact), nobody was notified,
 * the caller's lvalue argument is untouched, no mutex is held; otherwise the sequential postcondition */
#undef CONTRACT_HQ_doEnqueue
#undef CONTRACT_HQ_doEnqueue__eventpp_ArgumentPassingExcludeEvent_int
#define HQ_ENQ_EXC(KIND, AT) \
  __CPROVER_requires(HQ_FRESH(self) && __CPROVER_is_fresh(first, sizeof(int)) && __CPROVER_is_fresh(args, sizeof(AT))) \
  __CPROVER_requires(NOLOCKS(self) && hq_ok(self) && HQ_SMALL(self) && !g_cur_is_w && !g_exc) \
  __CPROVER_assigns(ENQ_FRAME, g_exc) \
  __CPROVER_ensures(NOLOCKS(self) && hq_ok(self) && args->id == __CPROVER_old(args->id)) \
  __CPROVER_ensures(g_exc ==> (self->queueList.len == __CPROVER_old(self->queueList.len) && self->queueList.w == __CPROVER_old(self->queueList.w) && \
                               (__CPROVER_old(self->queueList.w) >= 0 ==> SLOT_QUEUED_M) && \
                               self->queueListConditionVariable.notified == __CPROVER_old(self->queueListConditionVariable.notified))) \
  __CPROVER_ensures(!g_exc ==> (self->queueList.len == __CPROVER_old(self->queueList.len) + 1 && \
                                (__CPROVER_old(self->queueList.w) >= 0 ==> self->queueList.w == __CPROVER_old(self->queueList.w)) && \
                                (self->queueList.w == __CPROVER_old(self->queueList.len) ==> (g_kind == (KIND) && g_kind_was == (KIND) && g_argid == __CPROVER_old(args->id) && g_event == __CPROVER_old(*first) && SLOT_QUEUED_M))))
#define CONTRACT_HQ_doEnqueue HQ_ENQ_EXC(1, VArg)
#define CONTRACT_HQ_doEnqueue__eventpp_ArgumentPassingExcludeEvent_int HQ_ENQ_EXC(2, WArg)
#ifdef UNIT_HQUEUEI
/* the include-event form (unit hqueuei) under exceptions: the same strong guarantee; the event is obtained BEFORE anything is
 * copied or moved, so a raising copy / move leaves an lvalue argument of the caller untouched */
#undef CONTRACT_HQ_doEnqueueI__V
#undef CONTRACT_HQ_doEnqueueI__V_2
#undef CONTRACT_HQ_doEnqueueI__W
#undef CONTRACT_HQ_doEnqueueI__W_2
#define HQ_ENQI_EXC(KIND, AT) \
  __CPROVER_requires(HQ_FRESH(self) && __CPROVER_is_fresh(first, sizeof(AT))) \
  __CPROVER_requires(NOLOCKS(self) && hq_ok(self) && HQ_SMALL(self) && !g_cur_is_w && !g_exc) \
  __CPROVER_assigns(ENQ_FRAME, g_exc, first->id) \
  __CPROVER_ensures(NOLOCKS(self) && hq_ok(self)) \
  __CPROVER_ensures(g_exc ==> (self->queueList.len == __CPROVER_old(self->queueList.len) && self->queueList.w == __CPROVER_old(self->queueList.w) && \
                               (__CPROVER_old(self->queueList.w) >= 0 ==> SLOT_QUEUED_M) && \
                               self->queueListConditionVariable.notified == __CPROVER_old(self->queueListConditionVariable.notified))) \
  __CPROVER_ensures(!g_exc ==> (self->queueList.len == __CPROVER_old(self->queueList.len) + 1 && \
                                (__CPROVER_old(self->queueList.w) >= 0 ==> self->queueList.w == __CPROVER_old(self->queueList.w)) && \
                                (self->queueList.w == __CPROVER_old(self->queueList.len) ==> (g_kind == (KIND) && g_kind_was == (KIND) && g_argid == __CPROVER_old(first->id) && g_event == (__CPROVER_old(first->id) ^ 0x2a) && SLOT_QUEUED_M))))
#define CONTRACT_HQ_doEnqueueI__V   HQ_ENQI_EXC(1, VArg) ENQI_LVALUE
#define CONTRACT_HQ_doEnqueueI__V_2 HQ_ENQI_EXC(1, VArg)
#define CONTRACT_HQ_doEnqueueI__W   HQ_ENQI_EXC(2, WArg) ENQI_LVALUE
#define CONTRACT_HQ_doEnqueueI__W_2 HQ_ENQI_EXC(2, WArg)
#endif
/* ------------------------------------------------------------------ process / processOne when a listener raises: the exception reaches the caller with no mutex held, the
 * representation intact, queueEmptyCounter restored (emptiness reporting and waiting stay correct); only events this
 * call had taken out of the queue are discarded (their nodes die with the local list, their payloads are destroyed
 * exactly once), every other event is where it was */
#undef CONTRACT_DispatcherBase_directDispatch
#undef CONTRACT_DispatcherBase_directDispatch__int_WArg
#define DD_CONTRACT_EXC(KIND) \
  __CPROVER_requires(NOLOCKS(QQ) && hq_ok(QQ) && QQ->queueEmptyCounter >= 1 && !g_exc) \
  __CPROVER_requires(IS_WIT_EV(a0) ==> (g_kind_was == (KIND) && g_disp == 0 && *a0 == g_event && a1->id == g_argid)) \
  __CPROVER_assigns(ENV_FRAME(QQ), g_exc) \
  __CPROVER_ensures(NOLOCKS(QQ) && hq_ok(QQ) && HQ_MID(QQ) && g_seq > __CPROVER_old(g_seq)) \
  __CPROVER_ensures(INFLIGHT_SAME(QQ, (IS_WIT_EV(a0) ? 1 : 0), 0))
#define CONTRACT_DispatcherBase_directDispatch DD_CONTRACT_EXC(1)
#define CONTRACT_DispatcherBase_directDispatch__int_WArg DD_CONTRACT_EXC(2)
#undef CONTRACT_HQ_doDispatchQueuedEvent
#define CONTRACT_HQ_doDispatchQueuedEvent \
  __CPROVER_requires(NOLOCKS(self) && hq_ok(self) && HQ_MID(self) && self->queueEmptyCounter >= 1 && !g_exc) \
  __CPROVER_requires(IS_WIT(item) ==> (g_kind_was != 0 && g_disp == 0 && ITEM_INTACT(item))) \
  __CPROVER_assigns(ENV_FRAME(self), g_exc) \
  __CPROVER_ensures(NOLOCKS(self) && hq_ok(self) && HQ_MID(self) && g_seq >= __CPROVER_old(g_seq)) \
  __CPROVER_ensures(INFLIGHT_SAME(self, (IS_WIT(item) ? 1 : 0), 0))
#undef LOOP_CONTRACT_HQ_process__loop0
#define LOOP_CONTRACT_HQ_process__loop0 \
  __CPROVER_assigns(__begin_L0.i, ENV_FRAME(self), g_exc) \
  __CPROVER_loop_invariant(0 <= __begin_L0.i && __begin_L0.i <= tempList.len && !g_cur_is_w && !g_exc) \
  __CPROVER_loop_invariant(NOLOCKS(self) && HQ_OK_M(self) && HQ_MID(self) && self->queueEmptyCounter >= 1) \
  __CPROVER_loop_invariant(tempList.w >= 0 ==> (INFLIGHT(self) && (tempList.w < __begin_L0.i ? DONE_M : SLOT_QUEUED_M))) \
  __CPROVER_loop_invariant(g_dead == __CPROVER_loop_entry(g_dead)) \
  __CPROVER_decreases(tempList.len - __begin_L0.i)
#undef CONTRACT_HQ_process
#define CONTRACT_HQ_process \
  __CPROVER_requires(HQ_FRESH(self)) \
  __CPROVER_requires(NOLOCKS(self) && hq_ok(self) && HQ_SMALL(self) && ALL_IN_LISTS(self) && !g_cur_is_w && !g_exc) \
  __CPROVER_assigns(PROC_FRAME, g_exc) \
  __CPROVER_ensures(NOLOCKS(self) && hq_ok(self) && self->queueEmptyCounter == __CPROVER_old(self->queueEmptyCounter)) \
  __CPROVER_ensures(!g_exc ==> (g_dead == __CPROVER_old(g_dead) && __CPROVER_return_value == (__CPROVER_old(self->queueList.len) > 0) && (__CPROVER_old(self->queueList.w) >= 0 ==> (DONE_M && self->freeList.w >= 0)))) \
  __CPROVER_ensures(g_exc ==> ((__CPROVER_old(self->queueList.w) < 0 ==> g_dead == __CPROVER_old(g_dead))))
#undef CONTRACT_HQ_processOne
#define CONTRACT_HQ_processOne \
  __CPROVER_requires(HQ_FRESH(self)) \
  __CPROVER_requires(NOLOCKS(self) && hq_ok(self) && HQ_SMALL(self) && ALL_IN_LISTS(self) && !g_cur_is_w && !g_exc) \
  __CPROVER_assigns(PROC_FRAME, g_exc) \
  __CPROVER_ensures(NOLOCKS(self) && hq_ok(self) && self->queueEmptyCounter == __CPROVER_old(self->queueEmptyCounter)) \
  __CPROVER_ensures(!g_exc ==> (g_dead == __CPROVER_old(g_dead) && __CPROVER_return_value == (__CPROVER_old(self->queueList.len) > 0) && (__CPROVER_old(self->queueList.w) == 0 ==> (DONE_M && self->freeList.w >= 0)))) \
  __CPROVER_ensures(g_exc ==> ((__CPROVER_old(self->queueList.w) != 0 ==> g_dead == __CPROVER_old(g_dead))))
/* ------------------------------------------------------------------ processIf (one round) when the predicate, a listener or the copy of an item raises */
#undef CONTRACT_HQ_doInvokeFuncWithQueuedEvent__PredV_ItemV
#undef CONTRACT_HQ_doInvokeFuncWithQueuedEvent__PredW_ItemW
#define PRED_BOUNDARY_EXC(KIND) \
  __CPROVER_requires(NOLOCKS(self) && hq_ok(self) && HQ_MID(self) && self->queueEmptyCounter >= 1 && !g_exc) \
  __CPROVER_requires(IS_WIT(item) ==> (g_kind_was == (KIND) && g_kind == (KIND) && g_pred == 0 && g_disp == 0 && ITEM_INTACT(item))) \
  __CPROVER_assigns(ENV_FRAME(self), g_exc) \
  __CPROVER_ensures(NOLOCKS(self) && hq_ok(self) && HQ_MID(self) && g_seq >= __CPROVER_old(g_seq)) \
  __CPROVER_ensures(INFLIGHT_SAME(self, 0, (IS_WIT(item) ? 1 : 0))) \
  __CPROVER_ensures(IS_WIT(item) ==> __CPROVER_return_value == g_verdict)
#define CONTRACT_HQ_doInvokeFuncWithQueuedEvent__PredV_ItemV PRED_BOUNDARY_EXC(1)
#define CONTRACT_HQ_doInvokeFuncWithQueuedEvent__PredW_ItemW PRED_BOUNDARY_EXC(2)
#undef PIF_LOOP
#define PIF_LOOP \
  __CPROVER_assigns(it, tempList.len, tempList.w, idleList.len, idleList.w, ENV_FRAME(self), g_cur_is_w, g_cur_addr, g_exc) \
  __CPROVER_loop_invariant(it.l == &tempList && 0 <= it.i && it.i <= tempList.len && WL_OK_M(tempList) && WL_OK_M(idleList) && !g_cur_is_w && !g_exc) \
  __CPROVER_loop_invariant(tempList.len + idleList.len == __CPROVER_loop_entry(tempList.len)) \
  __CPROVER_loop_invariant(NOLOCKS(self) && HQ_OK_M(self) && HQ_MID(self) && self->queueEmptyCounter >= 1) \
  __CPROVER_loop_invariant(PIF_W && g_dead == __CPROVER_loop_entry(g_dead)) \
  __CPROVER_decreases(tempList.len - it.i)
#undef PIF_ROUND_CONTRACT
#define PIF_ROUND_CONTRACT(NEXT_ASSIGNS) \
  __CPROVER_requires(HQ_FRESH(self) && __CPROVER_is_fresh(func, sizeof(*func))) \
  __CPROVER_requires(NOLOCKS(self) && hq_ok(self) && HQ_SMALL(self) && ALL_IN_LISTS(self) && g_pred == 0 && !g_cur_is_w && !g_exc) \
  __CPROVER_assigns(self->queueList, self->freeList, self->queueListMutex.depth, self->freeListMutex.depth, self->queueEmptyCounter, self->queueListConditionVariable.notified, GHOSTS, g_cur_is_w, g_cur_addr, g_exc) \
  __CPROVER_ensures(NOLOCKS(self) && hq_ok(self) && self->queueEmptyCounter == __CPROVER_old(self->queueEmptyCounter)) \
  __CPROVER_ensures(!g_exc ==> (g_dead == __CPROVER_old(g_dead) && PIF_POST)) \
  __CPROVER_ensures(g_exc ==> (__CPROVER_old(self->queueList.w) < 0 ==> g_dead == __CPROVER_old(g_dead)))
#endif
