/* unit "hqueue": HeterEventQueue with two prototypes void(VArg), void(WArg); opaque value types and the TRUSTED witness
 * abstraction of std::list<BufferedUnion<N>> (ONE witness slot g_S0; every other element anonymous) */
typedef struct VArg { int id; } VArg;
typedef struct WArg { int id; int extra; } WArg;
typedef struct TupV { VArg a0; } TupV;                 /* std::tuple<VArg> */
typedef struct TupW { WArg a0; } TupW;                 /* std::tuple<WArg> */
typedef struct DispatcherBase { int opaque; } DispatcherBase;   /* HeterEventDispatcherBase: environment */
typedef struct CondVar { int notified; } CondVar;
typedef const void *DtorTag;
typedef const void *DispTag;                           /* ItemDispatcher: address of doDispatchItem<PrototypeInfo> */
typedef struct PredV { int id; } PredV;
typedef struct PredW { int id; } PredW;
typedef struct Duration { long v; } Duration;
typedef struct RawBuf { unsigned char b[24] __attribute__((aligned(8))); } RawBuf;      /* std::array<char, 24>: raw storage of a slot */
typedef struct WList { long len; long w; struct Mutex *guard; } WList;   /* w: position of the witness slot, -1 if not in this list */
typedef struct WIt { WList *l; long i; } WIt;
int nondet_int(void); _Bool nondet_bool(void);
#define VArg_COPY(p) (*(p))
#define VArg_MOVE(p) ({ VArg __t = *(p); (p)->id = nondet_int(); __t; })
#define WArg_COPY(p) (*(p))
#define WArg_MOVE(p) ({ WArg __t = *(p); (p)->id = nondet_int(); __t; })
#define TupV_COPY(p) (*(p))
#define TupV_MOVE(p) ({ TupV __t = *(p); (p)->a0.id = nondet_int(); __t; })
#define TupW_COPY(p) (*(p))
#define TupW_MOVE(p) ({ TupW __t = *(p); (p)->a0.id = nondet_int(); __t; })
#define BASE_TO_DERIVED(T, field, p) ((T *)((char *)(p) - __builtin_offsetof(T, field)))
