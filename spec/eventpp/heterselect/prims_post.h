/* spec for unit "heterselect" (C14, compile-time half): for each probed prototype list and argument list / callable,
 * the index the library's FindPrototypeByArgs / FindPrototypeByCallable selects equals the index of the FIRST LISTED
 * prototype that is callable with those argument types / that the callable can be called with (oracle written from
 * the property in extract/inst/heterselect.cpp); -1 = none.  Both numbers are folded by clang from /repo's headers on
 * this run. */
#define SELECT_FACT(k, got, want) __CPROVER_assert((got) == (want), "C14: the selected prototype is the first listed one that is callable (probe " #k ")");
void lemma_heter_selection(void) __CPROVER_requires(1) __CPROVER_ensures(1) __CPROVER_assigns()
{
  SELECTION_FACTS
  __CPROVER_assert(SELECTION_COUNT >= 30, "the probe list has not shrunk");
  VACUITY_REACH(lemma_heter_selection, 0);
}
