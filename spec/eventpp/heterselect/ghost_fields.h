/* unit "heterselect": no state */
