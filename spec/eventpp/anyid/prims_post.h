/* spec for unit "anyid" (C18) */
/* the Storage's own == and <: by the property's premise an equivalence and a strict weak order whose incomparability is
 * that equivalence.  Instantiated with a key comparison that has non-trivial equivalence classes (v >> 2). */
#define CONTRACT_Stor_eq __CPROVER_assigns() __CPROVER_ensures(__CPROVER_return_value == ((a0->v >> 2) == (a1->v >> 2)))
#define CONTRACT_Stor_lt __CPROVER_assigns() __CPROVER_ensures(__CPROVER_return_value == ((a0->v >> 2) < (a1->v >> 2)))
/* a Storage whose operator< returns int (any non-zero value = true): it still supports both == and < */
#define CONTRACT_StorI_eq __CPROVER_assigns() __CPROVER_ensures(__CPROVER_return_value == ((a0->v >> 2) == (a1->v >> 2)))
#define CONTRACT_StorI_lt __CPROVER_assigns() __CPROVER_ensures((__CPROVER_return_value != 0) == ((a0->v >> 2) < (a1->v >> 2)))
#define LEMMA __CPROVER_requires(1) __CPROVER_assigns() __CPROVER_ensures(1)
#define OK(c, msg) __CPROVER_assert(c, msg)

/* laws over THREE arbitrary ids (full 64-bit digests, arbitrary stored values): loop-free, complete */
unsigned long nondet_ulong(void); int nondet_int(void);
#define LAWS(ID, EQ, LT, HASH, HT) \
  HT h; \
  _Bool ab = EQ(&a, &b), ba = EQ(&b, &a), bc = EQ(&b, &c), ac = EQ(&a, &c); \
  OK(EQ(&a, &a), "== is reflexive"); \
  OK(ab == ba, "== is symmetric"); \
  OK(!(ab && bc) || ac, "== is transitive"); \
  _Bool lab = LT(&a, &b), lba = LT(&b, &a), lbc = LT(&b, &c), lcb = LT(&c, &b), lac = LT(&a, &c), lca = LT(&c, &a); \
  OK(!LT(&a, &a), "< is irreflexive"); \
  OK(!(lab && lba), "< is asymmetric"); \
  OK(!(lab && lbc) || lac, "< is transitive"); \
  OK(!((!lab && !lba) && (!lbc && !lcb)) || (!lac && !lca), "incomparability under < is transitive"); \
  OK((!lab && !lba) == ab, "the incomparability classes of < are exactly the == classes"); \
  OK(!ab || HASH(&h, &a) == HASH(&h, &b), "equal ids hash equally");
void lemma_anyid_plain(void) LEMMA
{
  /* counterexample values are read back from these assignments by the replay step */
  unsigned long cex_da = nondet_ulong(), cex_db = nondet_ulong(), cex_dc = nondet_ulong();
  IdE a, b, c; a.digest = cex_da; b.digest = cex_db; c.digest = cex_dc;
  LAWS(IdE, eq__EmptyStorage, lt__EmptyStorage, HashE_call, HashE)
  OK(ab == (a.digest == b.digest), "without value storage: ids are equal exactly when their digests are");
}
void lemma_anyid_stored(void) LEMMA
{
  unsigned long cex_da = nondet_ulong(), cex_db = nondet_ulong(), cex_dc = nondet_ulong();
  int cex_va = nondet_int(), cex_vb = nondet_int(), cex_vc = nondet_int();
  IdS a, b, c; a.digest = cex_da; b.digest = cex_db; c.digest = cex_dc; a.value.v = cex_va; b.value.v = cex_vb; c.value.v = cex_vc;
  LAWS(IdS, eq__Stor, lt__Stor, HashS_call, HashS)
  OK(!(a.digest == b.digest && (a.value.v >> 2) != (b.value.v >> 2)) || (!ab && (lab || lba)), "with value storage: colliding digests with different values stay distinct, ordered ids");
}

void lemma_anyid_stored_nonbool(void) LEMMA
{
  unsigned long cex_da = nondet_ulong(), cex_db = nondet_ulong(), cex_dc = nondet_ulong();
  int cex_va = nondet_int(), cex_vb = nondet_int(), cex_vc = nondet_int();
  IdI a, b, c; a.digest = cex_da; b.digest = cex_db; c.digest = cex_dc; a.value.v = cex_va; b.value.v = cex_vb; c.value.v = cex_vc;
  LAWS(IdI, eq__StorI, lt__StorI, HashI_call, HashI)
  OK(!(a.digest == b.digest && (a.value.v >> 2) != (b.value.v >> 2)) || (!ab && (lab || lba)), "with a value storage whose < returns a non-bool: colliding digests with different values stay distinct, ordered ids");
}
