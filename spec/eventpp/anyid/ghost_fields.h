/* unit "anyid" */
typedef struct Stor { int v; } Stor;                    /* a value-storing Storage that supports == and < */
typedef struct StorI { int v; } StorI;                  /* a value-storing Storage whose operator< returns int */
typedef struct EmptyStorage { int unused; } EmptyStorage;  /* EmptyAnyStorage: supports neither */
#define GHOST_FIELDS_MakeHash int unused;
#define GHOST_FIELDS_HashE int unused;
#define GHOST_FIELDS_HashS int unused;
#define GHOST_FIELDS_HashI int unused;
#define MakeHash_DEFAULT() ((MakeHash){0})
