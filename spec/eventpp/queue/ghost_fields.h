/* unit "queue": opaque value types and the TRUSTED abstraction of std::list<BufferedItem<QueuedEvent>> */
typedef struct VArg { int id; } VArg;                 /* opaque argument value: identity only */
typedef struct ArgsTuple { VArg a0; } ArgsTuple;       /* std::tuple<VArg> */
typedef struct DispatcherBase { int opaque; } DispatcherBase;   /* EventDispatcherBase: separate unit; here environment */
typedef struct CondVar { int notified; } CondVar;      /* std::condition_variable: ghost count of notify calls */
typedef const void *DtorTag;                           /* DtorFunc: the address of commonDtor<T> is the type tag T */
typedef struct UserPred { int id; } UserPred;
typedef struct UserPred0 { int id; } UserPred0;
typedef struct Duration { long v; } Duration;

/* witness abstraction of a std::list of slots (DESIGN 3.2): its length and the positions of the two witness slots
 * g_S[0], g_S[1] (-1: not in this list).  Every other element is anonymous. */
typedef struct WList { long len; long w[2]; struct Mutex *guard; } WList;   /* guard (ghost): the mutex that must be held for structural changes, NULL for thread-local lists */
typedef struct WIt { WList *l; long i; } WIt;          /* iterator = (list, index) */
int nondet_int(void);
_Bool nondet_bool(void);
#define VArg_COPY(p) (*(p))
#define VArg_MOVE(p) ({ VArg __t = *(p); (p)->id = nondet_int(); __t; })          /* moved-from: unspecified value */
#define ArgsTuple_COPY(p) (*(p))
#define ArgsTuple_MOVE(p) ({ ArgsTuple __t = *(p); (p)->a0.id = nondet_int(); __t; })
#define QueuedEvent_COPY(p) (*(p))
#define QueuedEvent_MOVE(p) ({ QueuedEvent __t = *(p); (p)->arguments.a0.id = nondet_int(); __t; })
