/* spec for unit "queue" */
/* ------------------------------------------------------------------ witness slots and their ghost ledger */
extern Slot g_S[2];                 /* the two witness slots (arbitrary slots of the queue) */
extern Slot g_anon;                 /* stand-in for every other slot: contents nondeterministic at each access */
extern _Bool g_cons[2];             /* payload constructed in witness slot k (placement new done, destructor not yet run) */
extern int g_argid[2];              /* argument value the event in slot k was enqueued with */
extern int g_disp[2];               /* how often the event in slot k has been passed to directDispatch */
extern unsigned long g_seq, g_dseq[2];  /* dispatch sequence numbers (order of dispatch calls) */
extern _Bool g_born[2];             /* witness slot k exists (has been created by emplace_back) */
extern _Bool g_taken[2];            /* the event in slot k was handed out by takeEvent */
extern const char g_dtor_tag_QueuedEvent;
#define FN_TAG(fn, T) ((DtorTag)&g_dtor_tag_##T)
#define WIDX(p) ((p) == &g_S[0] ? 0 : ((p) == &g_S[1] ? 1 : -1))
#define SLOT_IS_W(p) ((p) == &g_S[0] || (p) == &g_S[1])

/* assert() in the source is an obligation, checked on the witness slots (the anonymous stand-in has no state) */
#define SRC_ASSERT(e) __CPROVER_assert(!SLOT_IS_W(self) || (e), "assert() in the source (eventqueue_i.h) holds")

/* placement new of the payload into a slot buffer: ghost: constructed, remembers the enqueued argument value */
#define PN_K(k) if (p == (void *)&g_S[k].buffer) { \
      __CPROVER_assert(!g_cons[k], "payload lifetime: no construction over a live payload (would leak it)"); \
      g_cons[k] = 1; g_argid[k] = v.arguments.a0.id; g_disp[k] = 0; g_taken[k] = 0; }
static inline void placement_new_QueuedEvent(void *p, QueuedEvent v)
{
  *(QueuedEvent *)p = v;
  PN_K(0) PN_K(1)
}
#define PLACEMENT_NEW(T, p, v) placement_new_##T(p, v)
/* call through the stored destructor pointer: must be the tag of the stored type; ghost: destroyed exactly once */
#define FD_K(k) if (p == (void *)&g_S[k].buffer) { \
      __CPROVER_assert(f == FN_TAG(commonDtor, QueuedEvent), "destructor pointer is the one of the stored type"); \
      __CPROVER_assert(g_cons[k], "payload lifetime: destroyed exactly once (double destruction)"); \
      g_cons[k] = 0; \
      g_S[k].buffer.arguments.a0.id = nondet_int();   /* reading a destroyed payload yields garbage */ }
static inline void fnptr_call_dtor(DtorTag f, void *p)
{
  FD_K(0) FD_K(1)
}
#define FNPTR_CALL(f, p) fnptr_call_dtor(f, p)
#define QueuedEvent_DEFAULT() ((QueuedEvent){0})

/* ------------------------------------------------------------------ TRUSTED std::list abstraction */
struct Mutex;
static inline void wl_init(WList *l) { l->len = 0; l->w[0] = -1; l->w[1] = -1; l->guard = NULL; }
#define WLIST_INIT(l) wl_init(l)
/* member lists: guarded by their mutex (ghost) */
#define GUARD_OF_queueList(s) (&(s)->queueListMutex)
#define GUARD_OF_freeList(s) (&(s)->freeListMutex)
#define WLIST_MEMBER_INIT(l, s, name) do { wl_init(l); (l)->guard = GUARD_OF_##name(s); } while (0)
/* lock discipline (C03 / C06): every structural change of a shared list happens with its mutex held */
#define WL_GUARDED(l) __CPROVER_assert((l)->guard == NULL || (l)->guard->depth == 1, "lock discipline: a shared list is changed only with its mutex held")
#define WLIST_EMPTY(l) ((l)->len == 0)
#define WLIST_BEGIN(l) ((WIt){(l), 0})
#define WLIST_END(l) ((WIt){(l), (l)->len})
static inline _Bool wit_ne(WIt a, WIt b) { __CPROVER_assert(a.l == b.l, "std::list: iterators of the same list are compared"); return a.i != b.i; }
#define WIT_NE(a, b) wit_ne(a, b)
static inline void wit_inc(WIt *p) { __CPROVER_assert(p->i >= 0 && p->i < p->l->len, "std::list: increment of a dereferenceable iterator"); p->i++; }
#define WIT_INC(p) wit_inc(p)
static inline Slot *wl_at(WList *l, long i)
{
  __CPROVER_assert(i >= 0 && i < l->len, "std::list: element access inside the list");
  if (l->w[0] == i) return &g_S[0];
  if (l->w[1] == i) return &g_S[1];
  Slot fresh; g_anon = fresh;            /* anonymous element: unconstrained */
  return &g_anon;
}
#define WIT_DEREF(it) wl_at((it).l, (it).i)
#define WLIST_FRONT(l) wl_at(l, 0)
static inline void wl_swap(WList *a, WList *b)
{
  WL_GUARDED(a); WL_GUARDED(b);
  long t = a->len; a->len = b->len; b->len = t;
  t = a->w[0]; a->w[0] = b->w[0]; b->w[0] = t;
  t = a->w[1]; a->w[1] = b->w[1]; b->w[1] = t;      /* the guard stays with the variable */
}
#define WLIST_SWAP(a, b) wl_swap(a, b)
extern WList *g_rm_list; extern long g_rm_idx; extern WList *g_ins_list; extern long g_ins_idx;
/* splice(pos, other): all elements of `other` move in front of pos, order kept */
static inline void wl_splice_all(WList *d, WIt pos, WList *s)
{
  __CPROVER_assert(pos.l == d && pos.i >= 0 && pos.i <= d->len && d != s, "std::list::splice: position belongs to the destination");
  WL_GUARDED(d); WL_GUARDED(s);
#define SA_K(k) if (s->w[k] >= 0) { __CPROVER_assert(d->w[k] < 0, "a slot is in one list only"); d->w[k] = pos.i + s->w[k]; } \
                else if (d->w[k] >= pos.i) d->w[k] += s->len;
  SA_K(0) SA_K(1)
  d->len += s->len; s->len = 0; s->w[0] = -1; s->w[1] = -1;
}
#define WLIST_SPLICE_ALL(d, pos, s) wl_splice_all(d, pos, s)
/* splice(pos, other, it): the single element *it moves in front of pos */
static inline void wl_splice_one(WList *d, WIt pos, WList *s, WIt it)
{
  __CPROVER_assert(pos.l == d && pos.i >= 0 && pos.i <= d->len, "std::list::splice: position belongs to the destination");
  __CPROVER_assert(it.l == s && it.i >= 0 && it.i < s->len && d != s, "std::list::splice: iterator is dereferenceable in the source");
  WL_GUARDED(d); WL_GUARDED(s);
  int moved = -1;
#define SO_K(k) if (s->w[k] == it.i) { moved = k; s->w[k] = -1; } else if (s->w[k] > it.i) s->w[k]--;
  SO_K(0) SO_K(1)
  s->len--;
  if (d->w[0] >= pos.i) d->w[0]++;
  if (d->w[1] >= pos.i) d->w[1]++;
  if (moved >= 0) { __CPROVER_assert(d->w[moved] < 0, "a slot is in one list only"); d->w[moved] = pos.i; }
  d->len++;
  g_rm_list = s; g_rm_idx = it.i; g_ins_list = d; g_ins_idx = pos.i;
}
#define WLIST_SPLICE_ONE(d, pos, s, it) wl_splice_one(d, pos, s, it)
/* iterator stability: an iterator keeps denoting the same element */
static inline void wit_stable(WIt *v)
{
  if (v->l == g_rm_list) { if (v->i > g_rm_idx) v->i--; else if (v->i == g_rm_idx) { v->l = g_ins_list; v->i = g_ins_idx; } }
  else if (v->l == g_ins_list && v->i >= g_ins_idx) v->i++;
}
#define WIT_STABLE(v) wit_stable(v)
/* emplace_back(): a new empty slot at the end; it may be a witness slot that did not exist yet */
void Slot_ctor(Slot *self);
static inline void wl_emplace_back(WList *l)
{
#define EB_K(k) if (!g_born[k] && nondet_bool()) { g_born[k] = 1; Slot_ctor(&g_S[k]); l->w[k] = l->len; l->len++; return; }
  EB_K(0) EB_K(1)
  l->len++;
}
#define WLIST_EMPLACE_BACK(l) wl_emplace_back(l)
/* ~list(): every element is destroyed (its destructor runs) */
void Slot_dtor(Slot *self);
extern _Bool g_dead[2];
static inline void wl_dtor(WList *l)
{
#define LD_K(k) if (l->w[k] >= 0) { Slot_dtor(&g_S[k]); g_dead[k] = 1; l->w[k] = -1; }
  LD_K(0) LD_K(1)
  l->len = 0;
}
#define WLIST_DTOR(l) wl_dtor(l)

#define CONDVAR_INIT(c) ((c)->notified = 0)
/* C07 monitor discipline (sufficient condition for "no lost wake-up" with a standard condition variable):
 * a write that can make the wait predicate true (queueNotifyCounter reaching 0; the queue becoming non-empty, which
 * happens inside queueListMutex by the lock discipline above) must be made with queueListMutex held, or the writer
 * must acquire queueListMutex at least once after the write, BEFORE it notifies.  ghost g_dirty = such a write has
 * been made without the mutex and no acquisition has followed yet. */
extern _Bool g_dirty;
#define NOTIFYCNT_PREINC(p) (++*(p))
#define NOTIFYCNT_PREDEC(p) notifycnt_predec(p)
static inline int notifycnt_predec(int *p)
{
  Q *q = (Q *)((char *)p - __builtin_offsetof(Q, queueNotifyCounter));
  --*p;
  if (*p == 0 && q->queueListMutex.depth == 0) g_dirty = 1;
  return *p;
}
#define CONDVAR_NOTIFY_ONE(c) (__CPROVER_assert(!g_dirty, "monitor discipline: the predicate-enabling write is ordered with the waiter's check by queueListMutex before notify (else the wake-up can be lost)"), (c)->notified++)
#define CONDVAR_NOTIFY_ALL(c) ((c)->notified++)
/* wait(lock, pred): TRUSTED semantics: returns only after pred() evaluated true with the mutex held.
 * sequential mode: nobody else runs, so a false predicate blocks forever */
#define CONDVAR_WAIT(cv, m, callfn, clos) do { _Bool __p = callfn(clos); __CPROVER_assume(__p); } while (0)
/* wait_for(lock, d, pred): true as soon as pred() holds; after the timeout the final value of pred() */
#define CONDVAR_WAIT_FOR(cv, m, callfn, clos) (callfn(clos))

/* the two argument-passing forms: unit "queue" is instantiated with ArgumentPassingIncludeEvent and a user getEvent policy
 * (the event is a fixed function of the argument value); unit "queuex" (-DUNIT_QUEUEX, same spec) with
 * ArgumentPassingExcludeEvent and the default getEvent: the event is the separate first argument, ANY event goes with
 * any argument value */
#ifdef UNIT_QUEUEX
#define EVT_TIE(evt, id) 1
#define ENQ_ARGS_FRESH (__CPROVER_is_fresh(args, sizeof(VArg)) && __CPROVER_is_fresh(first, sizeof(int)))
#define ENQ_EVT __CPROVER_old(*first)
#else
#define EVT_TIE(evt, id) ((evt) == ((id) ^ 0x2a))
#define ENQ_ARGS_FRESH __CPROVER_is_fresh(args, sizeof(VArg))
#define ENQ_EVT (__CPROVER_old(args->id) ^ 0x2a)
#endif
/* ================================================================== representation invariant of the queue (G) */
#define TAGQ FN_TAG(commonDtor, QueuedEvent)
/* written as macros so that loop invariants (which may not contain calls) can use them */
#define WL_OK_M(l) ((l).len >= 0 && (l).len < (1L << 62) && (l).w[0] >= -1 && (l).w[0] < (l).len && (l).w[1] >= -1 && (l).w[1] < (l).len && ((l).w[0] < 0 || (l).w[0] != (l).w[1]))
#define SLOT_OK_M(k)     (((g_S[k].dtor != NULL) == g_cons[k]) && (g_S[k].dtor == NULL || g_S[k].dtor == TAGQ))      /* dtor != nullptr <=> payload constructed */
#define SLOT_QUEUED_M(k) (g_born[k] && !g_dead[k] && g_cons[k] && g_S[k].dtor == TAGQ && g_disp[k] == 0 && !g_taken[k] && \
                          g_S[k].buffer.arguments.a0.id == g_argid[k] && EVT_TIE(g_S[k].buffer.event, g_argid[k]))   /* holds exactly what was enqueued */
#define SLOT_FREE_M(k)   (g_born[k] && !g_dead[k] && !g_cons[k] && g_S[k].dtor == NULL)
#define Q_OK_K(q, k) (!g_born[k] ? ((q)->queueList.w[k] < 0 && (q)->freeList.w[k] < 0 && !g_cons[k] && !g_dead[k]) \
                                 : (SLOT_OK_M(k) && !((q)->queueList.w[k] >= 0 && (q)->freeList.w[k] >= 0) && \
                                    ((q)->queueList.w[k] < 0 || SLOT_QUEUED_M(k)) && ((q)->freeList.w[k] < 0 || SLOT_FREE_M(k))))
#define Q_OK_M(q) (WL_OK_M((q)->queueList) && WL_OK_M((q)->freeList) && (q)->queueList.guard == &(q)->queueListMutex && (q)->freeList.guard == &(q)->freeListMutex && (q)->queueEmptyCounter >= 0 && (q)->queueNotifyCounter >= 0 && \
                   (q)->queueEmptyCounter <= 1000000 && (q)->queueNotifyCounter <= 1000000 && \
                   (q)->queueListConditionVariable.notified >= 0 && (q)->queueListConditionVariable.notified <= (1 << 30) && Q_OK_K(q, 0) && Q_OK_K(q, 1))
static inline _Bool q_ok(const Q *q) { return Q_OK_M(q); }
/* machine-arithmetic assumption: list lengths stay far below 2^62 (stated in evidence) */
#define Q_SMALL(q) ((q)->queueList.len < (1L << 40) && (q)->freeList.len < (1L << 40) && (q)->queueListConditionVariable.notified < (1 << 29) && (q)->queueEmptyCounter < 1000 && (q)->queueNotifyCounter < 1000)
#define Q_MID(q) ((q)->queueList.len < (1L << 61) && (q)->freeList.len < (1L << 61) && (q)->queueListConditionVariable.notified < (1 << 29))
/* window: the queue object; the ghost guards of its lists are its own mutexes (pointer_equals: value sets) */
#define Q_FRESH(s) (__CPROVER_is_fresh(s, sizeof(Q)) && (s)->queueListMutex.kind == 1 && (s)->freeListMutex.kind == 2 && __CPROVER_pointer_equals((s)->queueList.guard, &(s)->queueListMutex) && __CPROVER_pointer_equals((s)->freeList.guard, &(s)->freeListMutex))
#define NOLOCKS(q) ((q)->queueListMutex.depth == 0 && (q)->freeListMutex.depth == 0)
#define INLIST(q, k) ((q)->queueList.w[k] >= 0 || (q)->freeList.w[k] >= 0)
#define GHOSTS g_S[0], g_S[1], g_anon, g_cons[0], g_cons[1], g_argid[0], g_argid[1], g_disp[0], g_disp[1], g_seq, g_dseq[0], g_dseq[1], g_born[0], g_born[1], g_taken[0], g_taken[1], g_dead[0], g_dead[1], g_rm_list, g_rm_idx, g_ins_list, g_ins_idx

/* ================================================================== environment: user getEvent policy, predicate */
#define CONTRACT_Pol_getEvent \
  __CPROVER_assigns() \
  __CPROVER_ensures(__CPROVER_return_value == (a0.id ^ 0x2a))        /* some fixed function of the argument VALUE */
#define CONTRACT_UserPred_call \
  __CPROVER_assigns()
#define CONTRACT_UserPred0_call \
  __CPROVER_assigns()

/* ================================================================== environment: dispatch to the listeners (rely, DESIGN 3.3)
 * EventDispatcherBase::directDispatch runs user listeners, which may enqueue, process, take, clear ... re-entrantly.
 * requires (checked at every call site): the event is dispatched exactly as it was enqueued (key, argument value),
 *   at most once, with no queue mutex held, and -- when a processing call dispatches it -- while the queue reports
 *   non-empty (C11).
 * ensures: G again; slots the caller has taken out of the shared lists (in flight) are untouchable. */
#define QQ ((Q *)self)
#ifdef OB_PROCESSING
#define g_in_processing 1
#else
#define g_in_processing 0
#endif
#define DD_K(k) (a0 == &g_S[k].buffer.event)
#define CONTRACT_DispatcherBase_directDispatch \
  __CPROVER_requires(NOLOCKS(QQ) && q_ok(QQ)) \
  __CPROVER_requires(DD_K(0) ==> (g_cons[0] && g_disp[0] == 0 && a1.id == g_argid[0] && *a0 == (g_argid[0] ^ 0x2a))) \
  __CPROVER_requires(DD_K(1) ==> (g_cons[1] && g_disp[1] == 0 && a1.id == g_argid[1] && *a0 == (g_argid[1] ^ 0x2a))) \
  __CPROVER_requires(g_in_processing ==> QQ->queueEmptyCounter >= 1)            /* C11: seen as non-empty from inside a listener */ \
  __CPROVER_assigns(QQ->queueList.len, QQ->queueList.w, QQ->freeList.len, QQ->freeList.w, QQ->queueListConditionVariable.notified, GHOSTS) \
  __CPROVER_ensures(NOLOCKS(QQ) && q_ok(QQ) && g_seq > __CPROVER_old(g_seq)) \
  __CPROVER_ensures(QQ->queueList.len < (1L << 61) && QQ->freeList.len < (1L << 61) && QQ->queueListConditionVariable.notified < (1 << 29))   /* sizes stay far below the machine limits (assumption) */ \
  __CPROVER_ensures(DD_K(0) ==> (g_disp[0] == 1 && g_dseq[0] == g_seq)) \
  __CPROVER_ensures(DD_K(1) ==> (g_disp[1] == 1 && g_dseq[1] == g_seq)) \
  __CPROVER_ensures(DD_INFLIGHT_SAME(0) && DD_INFLIGHT_SAME(1)) \
  __CPROVER_ensures(g_dead[0] == __CPROVER_old(g_dead[0]) && g_dead[1] == __CPROVER_old(g_dead[1]))     /* no operation destroys a slot while the queue lives */
/* a witness slot that was in neither shared list when the listener ran (in flight in the caller's local list, or not
 * born yet) is exactly as before, apart from the dispatch count / sequence number of the event being dispatched */
#define DD_INFLIGHT_SAME(k) \
  ((__CPROVER_old(QQ->queueList.w[k]) < 0 && __CPROVER_old(QQ->freeList.w[k]) < 0 && __CPROVER_old(g_born[k])) ==> \
     (QQ->queueList.w[k] < 0 && QQ->freeList.w[k] < 0 && g_born[k] && g_dead[k] == __CPROVER_old(g_dead[k]) && g_cons[k] == __CPROVER_old(g_cons[k]) && \
      g_S[k].dtor == __CPROVER_old(g_S[k].dtor) && g_S[k].buffer.arguments.a0.id == __CPROVER_old(g_S[k].buffer.arguments.a0.id) && \
      g_S[k].buffer.event == __CPROVER_old(g_S[k].buffer.event) && g_argid[k] == __CPROVER_old(g_argid[k]) && g_taken[k] == __CPROVER_old(g_taken[k]) && \
      (DD_K(k) || (g_disp[k] == __CPROVER_old(g_disp[k]) && g_dseq[k] == __CPROVER_old(g_dseq[k])))))

/* ================================================================== doEnqueue (eventqueue.h:490)
 * takes a recycled slot (or creates one), constructs the event in it, appends it at the END of queueList */
#define CONTRACT_Q_doEnqueue \
  __CPROVER_requires(Q_FRESH(self) && __CPROVER_is_fresh(item, sizeof(QueuedEvent))) \
  __CPROVER_requires(NOLOCKS(self) && q_ok(self) && Q_SMALL(self) && EVT_TIE(item->event, item->arguments.a0.id)) \
  __CPROVER_assigns(self->queueList, self->freeList, self->queueListMutex.depth, self->freeListMutex.depth, item->arguments.a0.id, GHOSTS) \
  __CPROVER_ensures(NOLOCKS(self) && q_ok(self)) \
  __CPROVER_ensures(self->queueList.len == __CPROVER_old(self->queueList.len) + 1 && self->freeList.len == (__CPROVER_old(self->freeList.len) > 0 ? __CPROVER_old(self->freeList.len) - 1 : 0)) \
  __CPROVER_ensures(ENQ_OLD_KEEP(0) && ENQ_OLD_KEEP(1) && ENQ_NEW_HOLDS(0) && ENQ_NEW_HOLDS(1))
/* events already queued keep their place (FIFO); the event just enqueued is the last one and holds the caller's values */
#define ENQ_OLD_KEEP(k) (__CPROVER_old(self->queueList.w[k]) >= 0 ==> self->queueList.w[k] == __CPROVER_old(self->queueList.w[k]))
#define ENQ_NEW_HOLDS(k) (self->queueList.w[k] == __CPROVER_old(self->queueList.len) ==> (g_argid[k] == __CPROVER_old(item->arguments.a0.id) && g_S[k].buffer.event == __CPROVER_old(item->event) && g_S[k].buffer.arguments.a0.id == __CPROVER_old(item->arguments.a0.id)))

/* ================================================================== enqueue (eventqueue.h:158), lvalue and rvalue argument
 * statement: the event is queued "with the argument values it had when enqueue was called" under the key getEvent
 * yields from those values; an lvalue argument of the caller is left untouched */
#define ENQ_CONTRACT(LV) \
  __CPROVER_requires(Q_FRESH(self) && ENQ_ARGS_FRESH && !g_dirty) \
  __CPROVER_requires(NOLOCKS(self) && q_ok(self) && Q_SMALL(self)) \
  __CPROVER_assigns(self->queueList, self->freeList, self->queueListMutex.depth, self->freeListMutex.depth, self->queueListConditionVariable.notified, GHOSTS) \
  __CPROVER_assigns(!(LV): args->id) \
  __CPROVER_ensures(NOLOCKS(self) && q_ok(self) && self->queueList.len == __CPROVER_old(self->queueList.len) + 1) \
  __CPROVER_ensures(ENQ_OLD_KEEP(0) && ENQ_OLD_KEEP(1)) \
  __CPROVER_ensures(ENQ2_NEW_HOLDS(0) && ENQ2_NEW_HOLDS(1)) \
  __CPROVER_ensures((LV) ==> args->id == __CPROVER_old(args->id)) \
  __CPROVER_ensures((self->queueNotifyCounter == 0) ==> self->queueListConditionVariable.notified == __CPROVER_old(self->queueListConditionVariable.notified) + 1)
#define ENQ2_NEW_HOLDS(k) (self->queueList.w[k] == __CPROVER_old(self->queueList.len) ==> (g_argid[k] == __CPROVER_old(args->id) && g_S[k].buffer.event == ENQ_EVT && g_S[k].buffer.arguments.a0.id == __CPROVER_old(args->id)))
#define CONTRACT_Q_enqueue ENQ_CONTRACT(1)
#define CONTRACT_Q_enqueue_2 ENQ_CONTRACT(0)
/* unit queuex: enqueue(T && first, A && ...args), lvalue / rvalue argument; the library's default getEvent */
#define CONTRACT_Q_enqueue__int ENQ_CONTRACT(1)
#define CONTRACT_Q_enqueue__int_2 ENQ_CONTRACT(0)
#define CONTRACT_Pol_getEvent2 __CPROVER_assigns() __CPROVER_ensures(__CPROVER_return_value == *a0)


/* ================================================================== process (eventqueue.h:206)
 * statement: every event queued when the call takes the batch is dispatched exactly once, in queue order, exactly as
 * it was enqueued; its slot is recycled; events enqueued meanwhile stay queued; result = "dispatched something";
 * the queue reports non-empty while the batch is in flight (queueEmptyCounter, C11) and the counter is restored. */
/* window of a processing obligation: at entry every existing witness slot is in one of the shared lists */
#define ALL_IN_LISTS(q) ((!g_born[0] || g_dead[0] || INLIST(q, 0)) && (!g_born[1] || g_dead[1] || INLIST(q, 1)))
#define INFLIGHT(q, k) ((q)->queueList.w[k] < 0 && (q)->freeList.w[k] < 0)
#define DONE_M(k) (g_born[k] && !g_dead[k] && g_disp[k] == 1 && !g_cons[k] && g_S[k].dtor == NULL && !g_taken[k] && g_dseq[k] <= g_seq)
#define PROC_W(T, i, k) ((T).w[k] >= 0 ==> (INFLIGHT(self, k) && ((T).w[k] < (i) ? DONE_M(k) : SLOT_QUEUED_M(k))))
#define PROC_FIFO(T, i) (((T).w[0] >= 0 && (T).w[1] >= 0 && (T).w[0] < (T).w[1] && (T).w[1] < (i)) ==> g_dseq[0] < g_dseq[1]) && \
                        (((T).w[0] >= 0 && (T).w[1] >= 0 && (T).w[1] < (T).w[0] && (T).w[0] < (i)) ==> g_dseq[1] < g_dseq[0])
#define LOOP_CONTRACT_Q_process__loop0 \
  __CPROVER_assigns(__begin_L0.i, self->queueList.len, self->queueList.w, self->freeList.len, self->freeList.w, self->queueListConditionVariable.notified, GHOSTS) \
  __CPROVER_loop_invariant(0 <= __begin_L0.i && __begin_L0.i <= tempList.len) \
  __CPROVER_loop_invariant(NOLOCKS(self) && Q_OK_M(self) && Q_MID(self)) \
  __CPROVER_loop_invariant(PROC_W(tempList, __begin_L0.i, 0) && PROC_W(tempList, __begin_L0.i, 1)) \
  __CPROVER_loop_invariant(PROC_FIFO(tempList, __begin_L0.i)) \
  __CPROVER_decreases(tempList.len - __begin_L0.i)
#define PROC_POST(k) (__CPROVER_old(self->queueList.w[k]) >= 0 ==> (DONE_M(k) && self->freeList.w[k] >= 0))
#define CONTRACT_Q_process \
  __CPROVER_requires(Q_FRESH(self)) \
  __CPROVER_requires(NOLOCKS(self) && q_ok(self) && Q_SMALL(self) && ALL_IN_LISTS(self)) \
  __CPROVER_requires(g_b0 == (self->queueList.w[0] >= 0 && self->queueList.w[1] >= 0 && self->queueList.w[0] < self->queueList.w[1])) \
  __CPROVER_requires(g_b1 == (self->queueList.w[0] >= 0 && self->queueList.w[1] >= 0 && self->queueList.w[1] < self->queueList.w[0])) \
  __CPROVER_assigns(self->queueList, self->freeList, self->queueListMutex.depth, self->freeListMutex.depth, self->queueEmptyCounter, self->queueListConditionVariable.notified, GHOSTS) \
  __CPROVER_ensures(NOLOCKS(self) && q_ok(self) && self->queueEmptyCounter == __CPROVER_old(self->queueEmptyCounter)) \
  __CPROVER_ensures(__CPROVER_return_value == (__CPROVER_old(self->queueList.len) > 0)) \
  __CPROVER_ensures(PROC_POST(0) && PROC_POST(1)) \
  __CPROVER_ensures((g_b0 ==> g_dseq[0] < g_dseq[1]) && (g_b1 ==> g_dseq[1] < g_dseq[0]))

/* std::tuple<VArg> assignment (opaque library type): element-wise */
#define CONTRACT_ArgsTuple_assign_copy \
  __CPROVER_assigns(self->a0.id) \
  __CPROVER_ensures(self->a0.id == a0->a0.id)
#define CONTRACT_ArgsTuple_assign_move \
  __CPROVER_assigns(self->a0.id, a0->a0.id) \
  __CPROVER_ensures(self->a0.id == __CPROVER_old(a0->a0.id))

/* ================================================================== emptyQueue (eventqueue.h:186) */
#define CONTRACT_Q_emptyQueue \
  __CPROVER_requires(Q_FRESH(self) && NOLOCKS(self)) \
  __CPROVER_assigns(self->queueListMutex.depth) \
  __CPROVER_ensures(NOLOCKS(self) && __CPROVER_return_value == (self->queueList.len == 0 && self->queueEmptyCounter == 0))

/* ================================================================== processOne (eventqueue.h:240): exactly the front event */
#define P1_FRONT(k) (__CPROVER_old(self->queueList.w[k]) == 0 ==> (DONE_M(k) && self->freeList.w[k] >= 0))
#define CONTRACT_Q_processOne \
  __CPROVER_requires(Q_FRESH(self)) \
  __CPROVER_requires(NOLOCKS(self) && q_ok(self) && Q_SMALL(self) && ALL_IN_LISTS(self)) \
  __CPROVER_assigns(self->queueList, self->freeList, self->queueListMutex.depth, self->freeListMutex.depth, self->queueEmptyCounter, self->queueListConditionVariable.notified, GHOSTS) \
  __CPROVER_ensures(NOLOCKS(self) && q_ok(self) && self->queueEmptyCounter == __CPROVER_old(self->queueEmptyCounter)) \
  __CPROVER_ensures(__CPROVER_return_value == (__CPROVER_old(self->queueList.len) > 0)) \
  __CPROVER_ensures(P1_FRONT(0) && P1_FRONT(1))

/* ================================================================== takeEvent (eventqueue.h:443): hands out exactly the front event, intact */
#define TK_FRONT(k) (__CPROVER_old(self->queueList.w[k]) == 0 ==> (queuedEvent->arguments.a0.id == g_argid[k] && queuedEvent->event == (g_argid[k] ^ 0x2a) && \
                                                                  g_disp[k] == 0 && !g_cons[k] && g_S[k].dtor == NULL && self->freeList.w[k] >= 0))
#define TK_REST(k)  (__CPROVER_old(self->queueList.w[k]) > 0 ==> self->queueList.w[k] == __CPROVER_old(self->queueList.w[k]) - 1)
#define CONTRACT_Q_takeEvent \
  __CPROVER_requires(Q_FRESH(self) && __CPROVER_is_fresh(queuedEvent, sizeof(QueuedEvent))) \
  __CPROVER_requires(NOLOCKS(self) && q_ok(self) && Q_SMALL(self)) \
  __CPROVER_assigns(self->queueList, self->freeList, self->queueListMutex.depth, self->freeListMutex.depth, *queuedEvent, GHOSTS) \
  __CPROVER_ensures(NOLOCKS(self) && q_ok(self)) \
  __CPROVER_ensures(__CPROVER_return_value == (__CPROVER_old(self->queueList.len) > 0)) \
  __CPROVER_ensures(__CPROVER_return_value ==> self->queueList.len == __CPROVER_old(self->queueList.len) - 1) \
  __CPROVER_ensures(TK_FRONT(0) && TK_FRONT(1) && TK_REST(0) && TK_REST(1))

/* ================================================================== peekEvent (eventqueue.h:429): copy of the front event, queue unchanged */
#define PK_FRONT(k) (self->queueList.w[k] == 0 ==> (queuedEvent->arguments.a0.id == g_argid[k] && queuedEvent->event == (g_argid[k] ^ 0x2a)))
#define CONTRACT_Q_peekEvent \
  __CPROVER_requires(Q_FRESH(self) && __CPROVER_is_fresh(queuedEvent, sizeof(QueuedEvent))) \
  __CPROVER_requires(NOLOCKS(self) && q_ok(self)) \
  __CPROVER_assigns(self->queueListMutex.depth, *queuedEvent, g_anon) \
  __CPROVER_ensures(NOLOCKS(self) && q_ok(self)) \
  __CPROVER_ensures(__CPROVER_return_value == (self->queueList.len > 0)) \
  __CPROVER_ensures(__CPROVER_return_value ==> (PK_FRONT(0) && PK_FRONT(1)))

/* ================================================================== clearEvents (eventqueue.h:191): everything queued is discarded,
 * payloads destroyed before return, slots recycled */
#define CL_W(T, i, k) ((T).w[k] >= 0 ==> (INFLIGHT(self, k) && ((T).w[k] < (i) ? (g_born[k] && !g_dead[k] && !g_cons[k] && g_S[k].dtor == NULL && g_disp[k] == 0) : SLOT_QUEUED_M(k))))
#define LOOP_CONTRACT_Q_clearEvents__loop0 \
  __CPROVER_assigns(__begin_L0.i, GHOSTS) \
  __CPROVER_loop_invariant(0 <= __begin_L0.i && __begin_L0.i <= tempList.len) \
  __CPROVER_loop_invariant(Q_OK_M(self) && CL_W(tempList, __begin_L0.i, 0) && CL_W(tempList, __begin_L0.i, 1)) \
  __CPROVER_decreases(tempList.len - __begin_L0.i)
#define CLR_POST(k) (__CPROVER_old(self->queueList.w[k]) >= 0 ==> (!g_cons[k] && g_S[k].dtor == NULL && g_disp[k] == 0 && self->freeList.w[k] >= 0))
#define CONTRACT_Q_clearEvents \
  __CPROVER_requires(Q_FRESH(self)) \
  __CPROVER_requires(NOLOCKS(self) && q_ok(self) && Q_SMALL(self)) \
  __CPROVER_assigns(self->queueList, self->freeList, self->queueListMutex.depth, self->freeListMutex.depth, GHOSTS) \
  __CPROVER_ensures(NOLOCKS(self) && q_ok(self) && self->queueList.len == 0) \
  __CPROVER_ensures(CLR_POST(0) && CLR_POST(1))

/* ================================================================== processIf / processUntil (eventqueue.h:276 / 340)
 * user predicate boundary = doInvokeFuncWithQueuedEvent (rely, like the listener boundary): the predicate may use the
 * queue re-entrantly.  ghost: g_pred[k] = how often the event in witness slot k has been shown to a predicate in this
 * call, g_verdict[k] = the (arbitrary, fixed) answer of the predicate for it. */
extern int g_pred[2]; extern _Bool g_verdict[2];
#define PI_K(k) (item == &g_S[k].buffer)
#define PRED_CONTRACT \
  __CPROVER_requires(NOLOCKS(self) && q_ok(self) && Q_MID(self)) \
  __CPROVER_requires(PI_K(0) ==> (SLOT_QUEUED_M(0) && g_pred[0] == 0)) \
  __CPROVER_requires(PI_K(1) ==> (SLOT_QUEUED_M(1) && g_pred[1] == 0))                 /* each event is examined at most once, intact */ \
  __CPROVER_requires(g_in_processing ==> self->queueEmptyCounter >= 1) \
  __CPROVER_assigns(self->queueList.len, self->queueList.w, self->freeList.len, self->freeList.w, self->queueListConditionVariable.notified, GHOSTS, g_pred[0], g_pred[1]) \
  __CPROVER_ensures(NOLOCKS(self) && q_ok(self) && Q_MID(self) && g_seq >= __CPROVER_old(g_seq)) \
  __CPROVER_ensures(DD_INFLIGHT_SAME2(0) && DD_INFLIGHT_SAME2(1)) \
  __CPROVER_ensures(g_dead[0] == __CPROVER_old(g_dead[0]) && g_dead[1] == __CPROVER_old(g_dead[1])) \
  __CPROVER_ensures(PI_K(0) ? (g_pred[0] == 1 && __CPROVER_return_value == g_verdict[0]) : g_pred[0] == __CPROVER_old(g_pred[0])) \
  __CPROVER_ensures(PI_K(1) ? (g_pred[1] == 1 && __CPROVER_return_value == g_verdict[1]) : g_pred[1] == __CPROVER_old(g_pred[1]))
#define DD_INFLIGHT_SAME2(k) \
  ((__CPROVER_old(self->queueList.w[k]) < 0 && __CPROVER_old(self->freeList.w[k]) < 0 && __CPROVER_old(g_born[k])) ==> \
     (self->queueList.w[k] < 0 && self->freeList.w[k] < 0 && g_born[k] && g_dead[k] == __CPROVER_old(g_dead[k]) && g_cons[k] == __CPROVER_old(g_cons[k]) && \
      g_S[k].dtor == __CPROVER_old(g_S[k].dtor) && g_S[k].buffer.arguments.a0.id == __CPROVER_old(g_S[k].buffer.arguments.a0.id) && \
      g_S[k].buffer.event == __CPROVER_old(g_S[k].buffer.event) && g_argid[k] == __CPROVER_old(g_argid[k]) && g_taken[k] == __CPROVER_old(g_taken[k]) && \
      g_disp[k] == __CPROVER_old(g_disp[k]) && g_dseq[k] == __CPROVER_old(g_dseq[k])))
#define CONTRACT_Q_doInvokeFuncWithQueuedEvent__UserPred_QueuedEvent PRED_CONTRACT
#define CONTRACT_Q_doInvokeFuncWithQueuedEvent__UserPred0_QueuedEvent PRED_CONTRACT

/* witness k during the processIf loop: T = tempList (not yet examined / declined), I = idleList (accepted, dispatched, cleared) */
#define PIF_W(k) ( \
   (__CPROVER_loop_entry(tempList.w[k]) < 0 ? (tempList.w[k] < 0 && idleList.w[k] < 0) : \
     (INFLIGHT(self, k) && ((tempList.w[k] >= 0) != (idleList.w[k] >= 0)) && tempList.w[k] <= __CPROVER_loop_entry(tempList.w[k]) && \
      (tempList.w[k] >= it.i ==> (g_pred[k] == 0 && SLOT_QUEUED_M(k))) && \
      ((tempList.w[k] >= 0 && tempList.w[k] < it.i) ==> (g_pred[k] == 1 && !g_verdict[k] && SLOT_QUEUED_M(k))) && \
      (idleList.w[k] >= 0 ==> (g_pred[k] == 1 && g_verdict[k] && DONE_M(k))))))
#define PIF_ORDER ((__CPROVER_loop_entry(tempList.w[0]) >= 0 && __CPROVER_loop_entry(tempList.w[1]) >= 0 && tempList.w[0] >= 0 && tempList.w[1] >= 0) ==> \
                   ((__CPROVER_loop_entry(tempList.w[0]) < __CPROVER_loop_entry(tempList.w[1])) == (tempList.w[0] < tempList.w[1])))
#define PIF_LOOP \
  __CPROVER_assigns(it, tempList.len, tempList.w, idleList.len, idleList.w, self->queueList.len, self->queueList.w, self->freeList.len, self->freeList.w, self->queueListConditionVariable.notified, GHOSTS, g_pred[0], g_pred[1]) \
  __CPROVER_loop_invariant(it.l == &tempList && 0 <= it.i && it.i <= tempList.len && WL_OK_M(tempList) && WL_OK_M(idleList)) \
  __CPROVER_loop_invariant(tempList.len + idleList.len == __CPROVER_loop_entry(tempList.len)) \
  __CPROVER_loop_invariant(NOLOCKS(self) && Q_OK_M(self) && Q_MID(self)) \
  __CPROVER_loop_invariant(PIF_W(0) && PIF_W(1) && PIF_ORDER) \
  __CPROVER_loop_invariant(g_dead[0] == __CPROVER_loop_entry(g_dead[0]) && g_dead[1] == __CPROVER_loop_entry(g_dead[1])) \
  __CPROVER_decreases(tempList.len - it.i)
#define LOOP_CONTRACT_Q_processIf__UserPred__loop0 PIF_LOOP
#define LOOP_CONTRACT_Q_processIf__UserPred0__loop0 PIF_LOOP
/* statement: each queued event is shown to the predicate exactly once; accepted => dispatched exactly once (as enqueued)
 * and recycled; declined => still queued, not behind its old place (so ahead of everything enqueued meanwhile), original
 * relative order kept; no slot is destroyed (nothing enqueued during the call is lost) */
#define PIF_POST(k) (__CPROVER_old(self->queueList.w[k]) >= 0 ==> (g_pred[k] == 1 && \
     (g_verdict[k] ? (DONE_M(k) && self->freeList.w[k] >= 0 && __CPROVER_return_value) \
                   : (SLOT_QUEUED_M(k) && self->queueList.w[k] >= 0 && self->queueList.w[k] <= __CPROVER_old(self->queueList.w[k])))))
#define PIF_CONTRACT \
  __CPROVER_requires(Q_FRESH(self) && __CPROVER_is_fresh(predictor, sizeof(*predictor))) \
  __CPROVER_requires(NOLOCKS(self) && q_ok(self) && Q_SMALL(self) && ALL_IN_LISTS(self) && g_pred[0] == 0 && g_pred[1] == 0) \
  __CPROVER_requires(g_b0 == (self->queueList.w[0] >= 0 && self->queueList.w[1] >= 0 && self->queueList.w[0] < self->queueList.w[1])) \
  __CPROVER_requires(g_b1 == (self->queueList.w[0] >= 0 && self->queueList.w[1] >= 0 && self->queueList.w[1] < self->queueList.w[0])) \
  __CPROVER_assigns(self->queueList, self->freeList, self->queueListMutex.depth, self->freeListMutex.depth, self->queueEmptyCounter, self->queueListConditionVariable.notified, GHOSTS, g_pred[0], g_pred[1]) \
  __CPROVER_ensures(NOLOCKS(self) && q_ok(self) && self->queueEmptyCounter == __CPROVER_old(self->queueEmptyCounter)) \
  __CPROVER_ensures(g_dead[0] == __CPROVER_old(g_dead[0]) && g_dead[1] == __CPROVER_old(g_dead[1])) \
  __CPROVER_ensures(PIF_POST(0) && PIF_POST(1)) \
  __CPROVER_ensures((g_b0 && !g_verdict[0] && !g_verdict[1]) ==> self->queueList.w[0] < self->queueList.w[1]) \
  __CPROVER_ensures((g_b1 && !g_verdict[0] && !g_verdict[1]) ==> self->queueList.w[1] < self->queueList.w[0])
#define CONTRACT_Q_processIf__UserPred PIF_CONTRACT
#define CONTRACT_Q_processIf__UserPred0 PIF_CONTRACT

/* processUntil: events are dispatched until the predicate first says true; that event and everything behind it stay queued */
#define PUN_W(k) ( \
   (__CPROVER_loop_entry(tempList.w[k]) < 0 ? (tempList.w[k] < 0 && idleList.w[k] < 0) : \
     (INFLIGHT(self, k) && ((tempList.w[k] >= 0) != (idleList.w[k] >= 0)) && tempList.w[k] <= __CPROVER_loop_entry(tempList.w[k]) && \
      (tempList.w[k] >= 0 ==> (tempList.w[k] >= it.i && g_pred[k] == 0 && SLOT_QUEUED_M(k))) && \
      (idleList.w[k] >= 0 ==> (g_pred[k] == 1 && !g_verdict[k] && DONE_M(k))))))
/* everything already dispatched was queued ahead of everything still waiting */
#define PUN_PREFIX(a, b) ((idleList.w[a] >= 0 && tempList.w[b] >= 0) ==> __CPROVER_loop_entry(tempList.w[a]) < __CPROVER_loop_entry(tempList.w[b]))
#define PUN_LOOP \
  __CPROVER_assigns(it, tempList.len, tempList.w, idleList.len, idleList.w, self->queueList.len, self->queueList.w, self->freeList.len, self->freeList.w, self->queueListConditionVariable.notified, GHOSTS, g_pred[0], g_pred[1]) \
  __CPROVER_loop_invariant(it.l == &tempList && 0 <= it.i && it.i <= tempList.len && WL_OK_M(tempList) && WL_OK_M(idleList)) \
  __CPROVER_loop_invariant(tempList.len + idleList.len == __CPROVER_loop_entry(tempList.len)) \
  __CPROVER_loop_invariant(NOLOCKS(self) && Q_OK_M(self) && Q_MID(self)) \
  __CPROVER_loop_invariant(PUN_W(0) && PUN_W(1) && PIF_ORDER && PUN_PREFIX(0, 1) && PUN_PREFIX(1, 0)) \
  __CPROVER_loop_invariant(g_dead[0] == __CPROVER_loop_entry(g_dead[0]) && g_dead[1] == __CPROVER_loop_entry(g_dead[1])) \
  __CPROVER_decreases(tempList.len - it.i)
#define LOOP_CONTRACT_Q_processUntil__UserPred__loop0 PUN_LOOP
#define PUN_POST(k) (__CPROVER_old(self->queueList.w[k]) >= 0 ==> \
     ((g_pred[k] == 1 && !g_verdict[k]) ? (DONE_M(k) && self->freeList.w[k] >= 0 && __CPROVER_return_value) \
                                        : (SLOT_QUEUED_M(k) && self->queueList.w[k] >= 0 && self->queueList.w[k] <= __CPROVER_old(self->queueList.w[k]))))
#define STAYED(k) (self->queueList.w[k] >= 0 && !(g_pred[k] == 1 && !g_verdict[k]))
#define CONTRACT_Q_processUntil__UserPred \
  __CPROVER_requires(Q_FRESH(self) && __CPROVER_is_fresh(predictor, sizeof(*predictor))) \
  __CPROVER_requires(NOLOCKS(self) && q_ok(self) && Q_SMALL(self) && ALL_IN_LISTS(self) && g_pred[0] == 0 && g_pred[1] == 0) \
  __CPROVER_requires(g_b0 == (self->queueList.w[0] >= 0 && self->queueList.w[1] >= 0 && self->queueList.w[0] < self->queueList.w[1])) \
  __CPROVER_requires(g_b1 == (self->queueList.w[0] >= 0 && self->queueList.w[1] >= 0 && self->queueList.w[1] < self->queueList.w[0])) \
  __CPROVER_assigns(self->queueList, self->freeList, self->queueListMutex.depth, self->freeListMutex.depth, self->queueEmptyCounter, self->queueListConditionVariable.notified, GHOSTS, g_pred[0], g_pred[1]) \
  __CPROVER_ensures(NOLOCKS(self) && q_ok(self) && self->queueEmptyCounter == __CPROVER_old(self->queueEmptyCounter)) \
  __CPROVER_ensures(g_dead[0] == __CPROVER_old(g_dead[0]) && g_dead[1] == __CPROVER_old(g_dead[1])) \
  __CPROVER_ensures(PUN_POST(0) && PUN_POST(1)) \
  __CPROVER_ensures((g_b0 && STAYED(0) && STAYED(1)) ==> self->queueList.w[0] < self->queueList.w[1]) \
  __CPROVER_ensures((g_b1 && STAYED(0) && STAYED(1)) ==> self->queueList.w[1] < self->queueList.w[0]) \
  __CPROVER_ensures((g_b0 && g_disp[1] == 1 && __CPROVER_old(self->queueList.w[1]) >= 0 && DONE_M(1)) ==> DONE_M(0))   /* an event is not dispatched before one queued ahead of it */

/* ================================================================== C10: queue constructors (eventqueue.h:116-140)
 * statement: every queue so obtained "reports empty until something is enqueued into it, and waiting, notification and
 * processing work" -- whatever the object's storage held before (*self is completely unconstrained here) */
#define QCTOR_POST (self->queueEmptyCounter == 0 && self->queueNotifyCounter == 0 && self->queueList.len == 0 && self->freeList.len == 0 && \
                    self->queueList.w[0] < 0 && self->queueList.w[1] < 0 && self->freeList.w[0] < 0 && self->freeList.w[1] < 0 && NOLOCKS(self) && self->queueListConditionVariable.notified == 0 && \
                    self->queueList.guard == &self->queueListMutex && self->freeList.guard == &self->freeListMutex && self->queueListMutex.kind == 1 && self->freeListMutex.kind == 2)
#define CONTRACT_DispatcherBase_ctor __CPROVER_assigns(self->opaque)
#define CONTRACT_DispatcherBase_ctor_copy __CPROVER_assigns(self->opaque)
#define CONTRACT_DispatcherBase_ctor_move __CPROVER_assigns(self->opaque, a0->opaque)
#define CONTRACT_DispatcherBase_assign_copy __CPROVER_assigns(self->opaque)
#define CONTRACT_DispatcherBase_assign_move __CPROVER_assigns(self->opaque, a0->opaque)
#define CONTRACT_Q_ctor \
  __CPROVER_requires(__CPROVER_is_fresh(self, sizeof(Q))) \
  __CPROVER_assigns(__CPROVER_object_whole(self)) \
  __CPROVER_ensures(QCTOR_POST)
#define CONTRACT_Q_ctor_copy \
  __CPROVER_requires(__CPROVER_is_fresh(self, sizeof(Q)) && Q_FRESH(other)) \
  __CPROVER_assigns(__CPROVER_object_whole(self)) \
  __CPROVER_ensures(QCTOR_POST)      /* and: no pending events are copied; the source is not written (frame) */
#define CONTRACT_Q_ctor_move \
  __CPROVER_requires(__CPROVER_is_fresh(self, sizeof(Q)) && Q_FRESH(other)) \
  __CPROVER_assigns(__CPROVER_object_whole(self), other->base_DispatcherBase.opaque) \
  __CPROVER_ensures(QCTOR_POST)
/* assignment transfers / copies listeners only: the queue state of the destination is untouched */
#define CONTRACT_Q_assign_copy \
  __CPROVER_requires(Q_FRESH(self) && (PEQQ(other, self) || Q_FRESH(other))) \
  __CPROVER_assigns(self->base_DispatcherBase.opaque) \
  __CPROVER_ensures(__CPROVER_return_value == self)
#define CONTRACT_Q_assign_move \
  __CPROVER_requires(Q_FRESH(self) && (PEQQ(other, self) || Q_FRESH(other))) \
  __CPROVER_assigns(self->base_DispatcherBase.opaque, other->base_DispatcherBase.opaque) \
  __CPROVER_ensures(__CPROVER_return_value == self)
#define PEQQ(a, b) __CPROVER_pointer_equals(a, b)


/* ================================================================== C07: wait / waitFor / DisableQueueNotify (eventqueue.h:88-110, 400-415)
 * safety halves: wait returns, and waitFor returns true, only after observing a non-empty queue with notification
 * enabled (the wait predicate is doCanProcess, evaluated with queueListMutex held); waitFor returns false only with the
 * predicate false at its final evaluation (the timeout itself is the trusted wait_for contract). */
#define CANPROC(q) (!((q)->queueList.len == 0 && (q)->queueEmptyCounter == 0) && (q)->queueNotifyCounter == 0)
#define CONTRACT_Q_doCanProcess \
  __CPROVER_requires(Q_FRESH(self)) \
  __CPROVER_assigns() \
  __CPROVER_ensures(__CPROVER_return_value == CANPROC(self))
#define CONTRACT_Q_wait \
  __CPROVER_requires(Q_FRESH(self) && NOLOCKS(self)) \
  __CPROVER_assigns(self->queueListMutex.depth) \
  __CPROVER_ensures(NOLOCKS(self) && CANPROC(self))
#define CONTRACT_Q_waitFor__long_std_ratio_1_1000 \
  __CPROVER_requires(Q_FRESH(self) && __CPROVER_is_fresh(duration, sizeof(Duration)) && NOLOCKS(self)) \
  __CPROVER_assigns(self->queueListMutex.depth) \
  __CPROVER_ensures(NOLOCKS(self) && __CPROVER_return_value == CANPROC(self))
/* DisableQueueNotify: notification is deferred while one is alive and resumes (with a wake-up if events are pending)
 * when the last one dies */
#define CONTRACT_DisableQueueNotify_ctor1 \
  __CPROVER_requires(__CPROVER_is_fresh(self, sizeof(DisableQueueNotify)) && Q_FRESH(queue) && queue->queueNotifyCounter >= 0 && queue->queueNotifyCounter < 1000) \
  __CPROVER_assigns(self->queue, queue->queueNotifyCounter) \
  __CPROVER_ensures(self->queue == queue && queue->queueNotifyCounter == __CPROVER_old(queue->queueNotifyCounter) + 1)
#define CONTRACT_DisableQueueNotify_dtor \
  __CPROVER_requires(__CPROVER_is_fresh(self, sizeof(DisableQueueNotify)) && Q_FRESH(self->queue)) \
  __CPROVER_requires(self->queue->queueNotifyCounter >= 1 && NOLOCKS(self->queue) && !g_dirty && self->queue->queueListConditionVariable.notified < 1000 && self->queue->queueListConditionVariable.notified >= 0) \
  __CPROVER_assigns(self->queue->queueNotifyCounter, self->queue->queueListConditionVariable.notified, self->queue->queueListMutex.depth, g_dirty) \
  __CPROVER_ensures(NOLOCKS(self->queue) && self->queue->queueNotifyCounter == __CPROVER_old(self->queue->queueNotifyCounter) - 1) \
  __CPROVER_ensures(CANPROC(self->queue) ==> self->queue->queueListConditionVariable.notified == __CPROVER_old(self->queue->queueListConditionVariable.notified) + 1)   /* pending events + last guard gone => a waiter is woken */


/* ================================================================== C11: never reported empty while an event is pending or in dispatch
 * (a) sequential: the listener / predicate stubs REQUIRE queueEmptyCounter >= 1 when called from a processing call.
 * (b) guarantee side of the concurrent half: whenever a processing call releases queueListMutex, every event it has
 *     taken out of queueList and not finished yet is covered by queueEmptyCounter >= 1 (checked at each unlock). */
#undef MUTEX_MEMBER_INIT
#define KIND_OF_queueListMutex 1
#define KIND_OF_freeListMutex 2
#define KIND_OF_listenerMutex 3
#define MUTEX_MEMBER_INIT(m, s, name) do { (m)->depth = 0; (m)->kind = KIND_OF_##name; } while (0)
#define C11_COVERED(q, k) (!(g_born[k] && !g_dead[k] && INFLIGHT(q, k) && g_cons[k] && g_disp[k] == 0 && !g_taken[k]) || (q)->queueEmptyCounter >= 1)
static inline void queue_unlock_hook(Mutex *m)
{
#ifdef OB_PROCESSING
  if (m->kind == 1) {
    Q *q = (Q *)((char *)m - __builtin_offsetof(Q, queueListMutex));
    __CPROVER_assert(C11_COVERED(q, 0) && C11_COVERED(q, 1), "C11: an event taken out of queueList by a processing call is covered by queueEmptyCounter >= 1 when queueListMutex is released");
  }
#endif
  mutex_unlock_(m);
}
#undef MUTEX_UNLOCK
#define MUTEX_UNLOCK(m) queue_unlock_hook(m)

/* (c) observer side of the concurrent half (-DMODE_CONC): emptyQueue() with other threads running at every
 * synchronisation point.  ghost g_w11 = state of ONE ARBITRARY event whose enqueue completed before the call:
 * 1 queued (in queueList), 2 in flight in a process / processOne / processIf / processUntil call, 3 consumed (dispatch
 * returned / taken / cleared).
 * rely R (what the operations of the other threads do, each shown to respect it by the obligations above and the
 * unlock hook (b)): queued => queueList non-empty; in flight => queueEmptyCounter >= 1; consumed is final;
 * an event moves between the shared list and a processing call (1 -> 2 take-out, 2 -> 1 put-back by processIf /
 * processUntil) only with queueListMutex held, so not while THIS thread holds it; 2 -> 3 needs no lock. */
extern int g_w11;
#define G11(q) ((g_w11 == 1 ==> (q)->queueList.len > 0) && (g_w11 == 2 ==> (q)->queueEmptyCounter >= 1) && g_w11 >= 1 && g_w11 <= 3)
#ifdef MODE_CONC
#define CONTRACT_interfere_q \
  __CPROVER_requires(G11(q)) \
  __CPROVER_assigns(q->queueListMutex.depth == 0: q->queueList.len, q->queueList.w) \
  __CPROVER_assigns(q->freeList.len, q->freeList.w, q->queueEmptyCounter, q->queueNotifyCounter, g_w11) \
  __CPROVER_ensures(G11(q) && (__CPROVER_old(g_w11) == 3 ==> g_w11 == 3)) \
  __CPROVER_ensures(q->queueListMutex.depth == 1 ==> (g_w11 == __CPROVER_old(g_w11) || (__CPROVER_old(g_w11) == 2 && g_w11 == 3)))
void interfere_q(Q *q) CONTRACT_interfere_q;
#undef INTERFERE_POINT
#define INTERFERE_POINT(s) interfere_q(s)
#undef CONTRACT_Q_emptyQueue
#define CONTRACT_Q_emptyQueue \
  __CPROVER_requires(Q_FRESH(self) && G11(self) && NOLOCKS(self)) \
  __CPROVER_assigns(self->queueList.len, self->queueList.w, self->freeList.len, self->freeList.w, self->queueEmptyCounter, self->queueNotifyCounter, self->queueListMutex.depth, g_w11) \
  __CPROVER_ensures(NOLOCKS(self)) \
  __CPROVER_ensures(__CPROVER_return_value ==> g_w11 == 3)     /* reported empty => the event has been fully consumed */
#endif

#include "notify.h"
#include "exc.h"

/* ------------------------------------------------------------------ thin form of the predicate boundary (-DOB_THIN): doInvokeFuncWithQueuedEvent shows the predicate a COPY of
 * the queued event's arguments (exactly once, equal values) and leaves the queued event itself untouched, so that a
 * declined event stays queued "with the argument values it had when enqueue was called" and an accepted one is
 * dispatched with them (C05) */
#ifdef OB_THIN
extern int g_up_n, g_up_arg; extern _Bool g_up_ret;
#undef CONTRACT_UserPred_call
#define CONTRACT_UserPred_call \
  __CPROVER_assigns(a0->id, g_up_n, g_up_arg, g_up_ret) \
  __CPROVER_ensures(g_up_n == __CPROVER_old(g_up_n) + 1 && g_up_arg == __CPROVER_old(a0->id) && (g_up_ret == 0 || g_up_ret == 1) && __CPROVER_return_value == g_up_ret)
#undef CONTRACT_UserPred0_call
#define CONTRACT_UserPred0_call \
  __CPROVER_assigns(g_up_n, g_up_ret) \
  __CPROVER_ensures(g_up_n == __CPROVER_old(g_up_n) + 1 && (g_up_ret == 0 || g_up_ret == 1) && __CPROVER_return_value == g_up_ret)
#undef CONTRACT_Q_doInvokeFuncWithQueuedEvent__UserPred_QueuedEvent
#define CONTRACT_Q_doInvokeFuncWithQueuedEvent__UserPred_QueuedEvent \
  __CPROVER_requires(__CPROVER_is_fresh(self, sizeof(Q)) && __CPROVER_is_fresh(func, sizeof(UserPred)) && __CPROVER_is_fresh(item, sizeof(QueuedEvent)) && g_up_n >= 0 && g_up_n < 1000) \
  __CPROVER_assigns(g_up_n, g_up_arg, g_up_ret) \
  __CPROVER_ensures(g_up_n == __CPROVER_old(g_up_n) + 1 && g_up_arg == __CPROVER_old(item->arguments.a0.id) && __CPROVER_return_value == g_up_ret) \
  __CPROVER_ensures(item->arguments.a0.id == __CPROVER_old(item->arguments.a0.id) && item->event == __CPROVER_old(item->event))
#undef CONTRACT_Q_doInvokeFuncWithQueuedEvent__UserPred0_QueuedEvent
#define CONTRACT_Q_doInvokeFuncWithQueuedEvent__UserPred0_QueuedEvent \
  __CPROVER_requires(__CPROVER_is_fresh(self, sizeof(Q)) && __CPROVER_is_fresh(func, sizeof(UserPred0)) && __CPROVER_is_fresh(item, sizeof(QueuedEvent)) && g_up_n >= 0 && g_up_n < 1000) \
  __CPROVER_assigns(g_up_n, g_up_ret) \
  __CPROVER_ensures(g_up_n == __CPROVER_old(g_up_n) + 1 && __CPROVER_return_value == g_up_ret) \
  __CPROVER_ensures(item->arguments.a0.id == __CPROVER_old(item->arguments.a0.id) && item->event == __CPROVER_old(item->event))
#endif
