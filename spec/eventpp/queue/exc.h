/* unit "queue", -DMODE_EXC (C09): exceptions.  ghost g_exc = an exception is propagating.  May-throw primitives set it
 * nondeterministically; the extractor emits, after every statement that contains a call, the unwinding edge
 * `if (g_exc) { destructors of every open scope, innermost first; return; }` (RAII as in C++).  A callee that
 * unwound returns with g_exc set and the caller unwinds in turn.  Proved per function: the exception reaches the caller
 * (g_exc stays set, nothing swallows it) with every mutex released, the representation invariant intact, the
 * emptiness counter restored, every payload the call had taken destroyed exactly once (the list / slot destructors
 * run on the unwinding edge), and the strong guarantee where the property states it (enqueue, peekEvent).
 * What may throw: user copy / move constructors and assignments of the argument type, the getEvent policy, listeners
 * (directDispatch), predicates, and allocation of a new slot.  Destructors do not throw (C++ default). */
#ifdef MODE_EXC
static inline void exc_maybe(void) { if (!g_exc && nondet_bool()) g_exc = 1; }
#undef VArg_COPY
#undef VArg_MOVE
#undef ArgsTuple_COPY
#undef ArgsTuple_MOVE
#undef QueuedEvent_COPY
#undef QueuedEvent_MOVE
#define VArg_COPY(p) ({ exc_maybe(); *(p); })
#define VArg_MOVE(p) ({ exc_maybe(); VArg __t = *(p); (p)->id = nondet_int(); __t; })
#define ArgsTuple_COPY(p) ({ exc_maybe(); *(p); })
#define ArgsTuple_MOVE(p) ({ exc_maybe(); ArgsTuple __t = *(p); (p)->a0.id = nondet_int(); __t; })
#define QueuedEvent_COPY(p) ({ exc_maybe(); *(p); })
#define QueuedEvent_MOVE(p) ({ exc_maybe(); QueuedEvent __t = *(p); (p)->arguments.a0.id = nondet_int(); __t; })
/* placement new: if constructing the value raised, no object is constructed */
#undef PLACEMENT_NEW
#define PLACEMENT_NEW(T, p, v) do { T __v = (v); if (!g_exc) placement_new_##T(p, __v); } while (0)
/* emplace_back allocates */
#undef WLIST_EMPLACE_BACK
#define WLIST_EMPLACE_BACK(l) do { exc_maybe(); if (!g_exc) wl_emplace_back(l); } while (0)

/* environment */
#undef CONTRACT_Pol_getEvent
#define CONTRACT_Pol_getEvent \
  __CPROVER_assigns(g_exc) \
  __CPROVER_ensures(__CPROVER_return_value == (a0.id ^ 0x2a))
#define EXC_ENV_KEEP (__CPROVER_old(g_exc) ==> g_exc)
#undef CONTRACT_DispatcherBase_directDispatch
#define CONTRACT_DispatcherBase_directDispatch \
  __CPROVER_requires(NOLOCKS(QQ) && q_ok(QQ) && !g_exc) \
  __CPROVER_requires(DD_K(0) ==> (g_cons[0] && g_disp[0] == 0 && a1.id == g_argid[0] && *a0 == (g_argid[0] ^ 0x2a))) \
  __CPROVER_requires(DD_K(1) ==> (g_cons[1] && g_disp[1] == 0 && a1.id == g_argid[1] && *a0 == (g_argid[1] ^ 0x2a))) \
  __CPROVER_requires(g_in_processing ==> QQ->queueEmptyCounter >= 1) \
  __CPROVER_assigns(QQ->queueList.len, QQ->queueList.w, QQ->freeList.len, QQ->freeList.w, QQ->queueListConditionVariable.notified, GHOSTS, g_exc) \
  __CPROVER_ensures(NOLOCKS(QQ) && q_ok(QQ) && g_seq > __CPROVER_old(g_seq)) \
  __CPROVER_ensures(QQ->queueList.len < (1L << 61) && QQ->freeList.len < (1L << 61) && QQ->queueListConditionVariable.notified < (1 << 29)) \
  __CPROVER_ensures(DD_K(0) ==> (g_disp[0] == 1 && g_dseq[0] == g_seq)) \
  __CPROVER_ensures(DD_K(1) ==> (g_disp[1] == 1 && g_dseq[1] == g_seq)) \
  __CPROVER_ensures(DD_INFLIGHT_SAME(0) && DD_INFLIGHT_SAME(1)) \
  __CPROVER_ensures(g_dead[0] == __CPROVER_old(g_dead[0]) && g_dead[1] == __CPROVER_old(g_dead[1]))
#undef PRED_CONTRACT
#define PRED_CONTRACT \
  __CPROVER_requires(NOLOCKS(self) && q_ok(self) && Q_MID(self) && !g_exc) \
  __CPROVER_requires(PI_K(0) ==> (SLOT_QUEUED_M(0) && g_pred[0] == 0)) \
  __CPROVER_requires(PI_K(1) ==> (SLOT_QUEUED_M(1) && g_pred[1] == 0)) \
  __CPROVER_requires(g_in_processing ==> self->queueEmptyCounter >= 1) \
  __CPROVER_assigns(self->queueList.len, self->queueList.w, self->freeList.len, self->freeList.w, self->queueListConditionVariable.notified, GHOSTS, g_pred[0], g_pred[1], g_exc) \
  __CPROVER_ensures(NOLOCKS(self) && q_ok(self) && Q_MID(self) && g_seq >= __CPROVER_old(g_seq)) \
  __CPROVER_ensures(DD_INFLIGHT_SAME2(0) && DD_INFLIGHT_SAME2(1)) \
  __CPROVER_ensures(g_dead[0] == __CPROVER_old(g_dead[0]) && g_dead[1] == __CPROVER_old(g_dead[1])) \
  __CPROVER_ensures(PI_K(0) ? (g_pred[0] == 1 && __CPROVER_return_value == g_verdict[0]) : g_pred[0] == __CPROVER_old(g_pred[0])) \
  __CPROVER_ensures(PI_K(1) ? (g_pred[1] == 1 && __CPROVER_return_value == g_verdict[1]) : g_pred[1] == __CPROVER_old(g_pred[1]))
#undef CONTRACT_ArgsTuple_assign_copy
#define CONTRACT_ArgsTuple_assign_copy \
  __CPROVER_assigns(self->a0.id, g_exc) \
  __CPROVER_ensures(g_exc || self->a0.id == a0->a0.id)
#undef CONTRACT_ArgsTuple_assign_move
#define CONTRACT_ArgsTuple_assign_move \
  __CPROVER_assigns(self->a0.id, a0->a0.id, g_exc) \
  __CPROVER_ensures(g_exc || self->a0.id == __CPROVER_old(a0->a0.id))

/* ------------------------------------------------------------------ BufferedItem::set: a slot is marked occupied (dtor set) only once the
 * payload is constructed; if the construction raises the slot is still empty */
#define CONTRACT_Slot_set \
  __CPROVER_requires(__CPROVER_pointer_equals(self, &g_S[0]) && __CPROVER_is_fresh(item, sizeof(QueuedEvent)) && SLOT_FREE_M(0) && !g_exc) \
  __CPROVER_assigns(g_S[0], item->arguments.a0.id, g_cons[0], g_argid[0], g_disp[0], g_taken[0], g_exc) \
  __CPROVER_ensures(g_exc ? (g_S[0].dtor == NULL && !g_cons[0]) \
                          : (g_S[0].dtor == TAGQ && g_cons[0] && g_S[0].buffer.arguments.a0.id == __CPROVER_old(item->arguments.a0.id) && g_S[0].buffer.event == __CPROVER_old(item->event)))

/* ------------------------------------------------------------------ doEnqueue / enqueue: strong guarantee */
#define EXC_QSAME(q) ((q)->queueList.len == __CPROVER_old((q)->queueList.len) && (q)->queueList.w[0] == __CPROVER_old((q)->queueList.w[0]) && (q)->queueList.w[1] == __CPROVER_old((q)->queueList.w[1]))
#define EXC_SLOT_SAME(k) ((__CPROVER_old(self->queueList.w[k]) >= 0) ==> SLOT_QUEUED_M(k))
#undef CONTRACT_Q_doEnqueue
#define CONTRACT_Q_doEnqueue \
  __CPROVER_requires(Q_FRESH(self) && __CPROVER_is_fresh(item, sizeof(QueuedEvent))) \
  __CPROVER_requires(NOLOCKS(self) && q_ok(self) && Q_SMALL(self) && EVT_TIE(item->event, item->arguments.a0.id) && !g_exc) \
  __CPROVER_assigns(self->queueList, self->freeList, self->queueListMutex.depth, self->freeListMutex.depth, item->arguments.a0.id, GHOSTS, g_exc) \
  __CPROVER_ensures(NOLOCKS(self) && q_ok(self)) \
  __CPROVER_ensures(g_exc ==> (EXC_QSAME(self) && EXC_SLOT_SAME(0) && EXC_SLOT_SAME(1)))                  /* the queued events are exactly as before */ \
  __CPROVER_ensures(!g_exc ==> (self->queueList.len == __CPROVER_old(self->queueList.len) + 1 && ENQ_OLD_KEEP(0) && ENQ_OLD_KEEP(1) && ENQ_NEW_HOLDS(0) && ENQ_NEW_HOLDS(1)))
#undef ENQ_CONTRACT
#define ENQ_CONTRACT(LV) \
  __CPROVER_requires(Q_FRESH(self) && ENQ_ARGS_FRESH && !g_dirty && !g_exc) \
  __CPROVER_requires(NOLOCKS(self) && q_ok(self) && Q_SMALL(self)) \
  __CPROVER_assigns(self->queueList, self->freeList, self->queueListMutex.depth, self->freeListMutex.depth, self->queueListConditionVariable.notified, GHOSTS, g_exc) \
  __CPROVER_assigns(!(LV): args->id) \
  __CPROVER_ensures(NOLOCKS(self) && q_ok(self)) \
  __CPROVER_ensures(g_exc ==> (EXC_QSAME(self) && EXC_SLOT_SAME(0) && EXC_SLOT_SAME(1) && self->queueListConditionVariable.notified == __CPROVER_old(self->queueListConditionVariable.notified))) \
  __CPROVER_ensures((LV) ==> args->id == __CPROVER_old(args->id)) \
  __CPROVER_ensures(!g_exc ==> (self->queueList.len == __CPROVER_old(self->queueList.len) + 1 && ENQ_OLD_KEEP(0) && ENQ_OLD_KEEP(1) && ENQ2_NEW_HOLDS(0) && ENQ2_NEW_HOLDS(1)))

/* ------------------------------------------------------------------ peekEvent: strong guarantee (the queue is not written at all) */
#undef CONTRACT_Q_peekEvent
#define CONTRACT_Q_peekEvent \
  __CPROVER_requires(Q_FRESH(self) && __CPROVER_is_fresh(queuedEvent, sizeof(QueuedEvent))) \
  __CPROVER_requires(NOLOCKS(self) && q_ok(self) && !g_exc) \
  __CPROVER_assigns(self->queueListMutex.depth, *queuedEvent, g_anon, g_exc) \
  __CPROVER_ensures(NOLOCKS(self) && q_ok(self)) \
  __CPROVER_ensures(!g_exc ==> (__CPROVER_return_value == (self->queueList.len > 0) && (__CPROVER_return_value ==> (PK_FRONT(0) && PK_FRONT(1)))))

/* ------------------------------------------------------------------ processing calls: an exception escaping a listener / predicate reaches the
 * caller with no mutex held, the invariant intact, the emptiness counter restored (so emptyQueue / wait keep working),
 * and the events this call had taken out of the queue discarded: their payloads destroyed exactly once (checked by the
 * payload-lifetime assertions on the unwinding edge), nothing else touched */
#define EXC_PROC_POST \
  __CPROVER_ensures(NOLOCKS(self) && q_ok(self) && self->queueEmptyCounter == __CPROVER_old(self->queueEmptyCounter)) \
  __CPROVER_ensures(g_exc ==> (EXC_TAKEN_GONE(0) && EXC_TAKEN_GONE(1)))
/* a witness event that was queued at entry is, after an exception, either still / again queued and intact, or gone for good
 * (dispatched and recycled, or destroyed with its slot): never half-alive */
#define EXC_TAKEN_GONE(k) (__CPROVER_old(self->queueList.w[k]) >= 0 ==> \
   ((self->queueList.w[k] >= 0 && SLOT_QUEUED_M(k)) || (self->queueList.w[k] < 0 && !g_cons[k] && g_S[k].dtor == NULL)))
/* processOne takes the front event only */
#define EXC_FRONT_GONE(k) (__CPROVER_old(self->queueList.w[k]) == 0 ==> (self->queueList.w[k] < 0 && !g_cons[k] && g_S[k].dtor == NULL))
#undef CONTRACT_Q_processOne
#define CONTRACT_Q_processOne \
  __CPROVER_requires(Q_FRESH(self)) \
  __CPROVER_requires(NOLOCKS(self) && q_ok(self) && Q_SMALL(self) && ALL_IN_LISTS(self) && !g_exc) \
  __CPROVER_assigns(self->queueList, self->freeList, self->queueListMutex.depth, self->freeListMutex.depth, self->queueEmptyCounter, self->queueListConditionVariable.notified, GHOSTS, g_exc) \
  __CPROVER_ensures(NOLOCKS(self) && q_ok(self) && self->queueEmptyCounter == __CPROVER_old(self->queueEmptyCounter)) \
  __CPROVER_ensures(g_exc ==> (EXC_FRONT_GONE(0) && EXC_FRONT_GONE(1)))
#undef CONTRACT_Q_process
#define CONTRACT_Q_process \
  __CPROVER_requires(Q_FRESH(self)) \
  __CPROVER_requires(NOLOCKS(self) && q_ok(self) && Q_SMALL(self) && ALL_IN_LISTS(self) && !g_exc) \
  __CPROVER_assigns(self->queueList, self->freeList, self->queueListMutex.depth, self->freeListMutex.depth, self->queueEmptyCounter, self->queueListConditionVariable.notified, GHOSTS, g_exc) \
  EXC_PROC_POST
#undef PIF_CONTRACT
#define PIF_CONTRACT \
  __CPROVER_requires(Q_FRESH(self) && __CPROVER_is_fresh(predictor, sizeof(*predictor))) \
  __CPROVER_requires(NOLOCKS(self) && q_ok(self) && Q_SMALL(self) && ALL_IN_LISTS(self) && g_pred[0] == 0 && g_pred[1] == 0 && !g_exc) \
  __CPROVER_assigns(self->queueList, self->freeList, self->queueListMutex.depth, self->freeListMutex.depth, self->queueEmptyCounter, self->queueListConditionVariable.notified, GHOSTS, g_pred[0], g_pred[1], g_exc) \
  EXC_PROC_POST
#undef CONTRACT_Q_processUntil__UserPred
#define CONTRACT_Q_processUntil__UserPred PIF_CONTRACT
/* loops: the sequential invariants, with g_exc == 0 while the loop is running (an exception leaves the loop at once) */
#undef LOOP_CONTRACT_Q_process__loop0
#define LOOP_CONTRACT_Q_process__loop0 \
  __CPROVER_assigns(__begin_L0.i, self->queueList.len, self->queueList.w, self->freeList.len, self->freeList.w, self->queueListConditionVariable.notified, GHOSTS, g_exc) \
  __CPROVER_loop_invariant(0 <= __begin_L0.i && __begin_L0.i <= tempList.len && !g_exc) \
  __CPROVER_loop_invariant(NOLOCKS(self) && Q_OK_M(self) && Q_MID(self)) \
  __CPROVER_loop_invariant(PROC_W(tempList, __begin_L0.i, 0) && PROC_W(tempList, __begin_L0.i, 1)) \
  __CPROVER_decreases(tempList.len - __begin_L0.i)
#undef PIF_LOOP
#define PIF_LOOP \
  __CPROVER_assigns(it, tempList.len, tempList.w, idleList.len, idleList.w, self->queueList.len, self->queueList.w, self->freeList.len, self->freeList.w, self->queueListConditionVariable.notified, GHOSTS, g_pred[0], g_pred[1], g_exc) \
  __CPROVER_loop_invariant(it.l == &tempList && 0 <= it.i && it.i <= tempList.len && WL_OK_M(tempList) && WL_OK_M(idleList) && !g_exc) \
  __CPROVER_loop_invariant(tempList.len + idleList.len == __CPROVER_loop_entry(tempList.len)) \
  __CPROVER_loop_invariant(NOLOCKS(self) && Q_OK_M(self) && Q_MID(self)) \
  __CPROVER_loop_invariant(PIF_W(0) && PIF_W(1) && PIF_ORDER) \
  __CPROVER_loop_invariant(g_dead[0] == __CPROVER_loop_entry(g_dead[0]) && g_dead[1] == __CPROVER_loop_entry(g_dead[1])) \
  __CPROVER_decreases(tempList.len - it.i)
#undef PUN_LOOP
#define PUN_LOOP \
  __CPROVER_assigns(it, tempList.len, tempList.w, idleList.len, idleList.w, self->queueList.len, self->queueList.w, self->freeList.len, self->freeList.w, self->queueListConditionVariable.notified, GHOSTS, g_pred[0], g_pred[1], g_exc) \
  __CPROVER_loop_invariant(it.l == &tempList && 0 <= it.i && it.i <= tempList.len && WL_OK_M(tempList) && WL_OK_M(idleList) && !g_exc) \
  __CPROVER_loop_invariant(tempList.len + idleList.len == __CPROVER_loop_entry(tempList.len)) \
  __CPROVER_loop_invariant(NOLOCKS(self) && Q_OK_M(self) && Q_MID(self)) \
  __CPROVER_loop_invariant(PUN_W(0) && PUN_W(1) && PIF_ORDER && PUN_PREFIX(0, 1) && PUN_PREFIX(1, 0)) \
  __CPROVER_loop_invariant(g_dead[0] == __CPROVER_loop_entry(g_dead[0]) && g_dead[1] == __CPROVER_loop_entry(g_dead[1])) \
  __CPROVER_decreases(tempList.len - it.i)
#endif
