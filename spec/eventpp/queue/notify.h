/* unit "queue", -DMODE_NOTIFY: the concurrent half of C07 ("no interleaving leaves every waiter blocked for ever while
 * events are pending and notification is enabled") as a thread-modular (rely / guarantee) obligation per function.
 *
 * The waiters' predicate P = doCanProcess() = (queueList non-empty OR queueEmptyCounter > 0) AND queueNotifyCounter == 0
 * is evaluated with queueListMutex held (wait / waitFor; the trusted condition-variable contract).  The wake-up protocol
 * each function of the queue is checked against, with ARBITRARY other threads running at every synchronisation point
 * (stub interfere_n: before every lock acquisition, atomic access and unlocked read of a shared list):
 *
 *  (W1) a write that can turn P from false to true puts the thread in debt (ghost g_owe):
 *         bit 1  queueList grows while the thread itself holds no queueEmptyCounter guard (ghost g_hold == 0);
 *                with a guard of its own held, P's first conjunct is true for every observer under the mutex from before
 *                the batch was swapped out until after the put-back, so the put-back enables nothing;
 *         bit 2  the thread's decrement makes queueNotifyCounter 0.
 *  (W2) the debt is paid by notify_one(), and only by a notify that is ordered with the waiter's check: the enabling
 *       write was made with queueListMutex held or the mutex was acquired after it (ghost g_dirty, as in sequential mode);
 *  (W3) or it is cancelled by an observation made AFTER the write that shows somebody else now is responsible:
 *         - queueNotifyCounter read non-zero: a DisableQueueNotify is alive; its destructor will run (W1 bit 2);
 *         - P's first conjunct read false WITH queueListMutex HELD (queueList empty and then queueEmptyCounter == 0 in
 *           the same critical section): nothing is pending; whoever enqueues next is in debt itself.
 *       An UNLOCKED pair of reads does not count: a processIf / processUntil put-back between the two reads makes it
 *       report "empty" although an event was pending throughout (defect D12, replay/C07_putback_race.cpp).
 *  (W4) at every return of a public operation: g_owe == 0 and !g_dirty.
 *
 * Soundness of the protocol (why W1-W4 for every thread imply C07), argued once in DESIGN.md section 5 (C07): the last
 * enabling write in the (sequentially consistent) order either notifies or observes a later disabling write whose
 * undoing is again an enabling write by W1.
 *
 * In this mode the lists carry no witness slots (every element is anonymous): the obligation is about the protocol, the
 * content half is C05 / C06. */
#ifdef MODE_NOTIFY
extern Q *g_q;                    /* the queue under proof (ghost), bound by the contracts' requires */
extern int g_owe;                 /* (W1) */
extern int g_hold;                /* queueEmptyCounter guards (CounterGuard) held by this thread */
extern int g_mydqn;               /* DisableQueueNotify objects of this thread that are alive */
extern _Bool g_seen_empty_locked; /* queueList was read empty in the current queueListMutex critical section */

#define NOWIT(l) ((l).w[0] < 0 && (l).w[1] < 0)
#define N_LEN(l, B) ((l).len >= 0 && (l).len < (B))
#define N_OK_B(q, B) (N_LEN((q)->queueList, B) && N_LEN((q)->freeList, B) && NOWIT((q)->queueList) && NOWIT((q)->freeList) && \
                   (q)->queueList.guard == &(q)->queueListMutex && (q)->freeList.guard == &(q)->freeListMutex && \
                   g_hold >= 0 && g_hold <= 1000 && g_mydqn >= 0 && g_mydqn <= 1000 && \
                   (q)->queueEmptyCounter >= g_hold && (q)->queueNotifyCounter >= g_mydqn && (q)->queueEmptyCounter <= 1000000 && (q)->queueNotifyCounter <= 1000000 && \
                   (q)->queueListConditionVariable.notified >= 0 && (q)->queueListConditionVariable.notified < (1 << 29) && g_born[0] && g_born[1])
#define N_OK(q) N_OK_B(q, 1L << 61)
#define N_SMALL(q) (N_OK_B(q, 1L << 40) && (q)->queueEmptyCounter < 1000 && (q)->queueNotifyCounter < 1000 && (q)->queueListConditionVariable.notified < (1 << 20))
/* machine-arithmetic assumption (stated in evidence): what the OTHER threads contribute stays far below the limits */
#define N_ROOM(q) ((q)->queueList.len < (1L << 60) && (q)->freeList.len < (1L << 60) && (q)->queueEmptyCounter <= 900000 && (q)->queueNotifyCounter <= 900000 && (q)->queueListConditionVariable.notified < (1 << 28))
static inline _Bool n_ok(const Q *q) { return N_OK(q); }
static inline _Bool n_small(const Q *q) { return N_SMALL(q); }
#define N_PRE(q) (__CPROVER_pointer_equals(g_q, q) && NOLOCKS(q) && n_small(q) && g_owe == 0 && !g_dirty && !g_seen_empty_locked)
#define N_POST(q) (NOLOCKS(q) && n_ok(q) && g_owe == 0 && !g_dirty)
#define N_FRAME(q) (q)->queueList.len, (q)->queueList.w, (q)->freeList.len, (q)->freeList.w, (q)->queueListMutex.depth, (q)->freeListMutex.depth, (q)->queueEmptyCounter, (q)->queueNotifyCounter, \
                   (q)->queueListConditionVariable.notified, g_anon, g_rm_list, g_rm_idx, g_ins_list, g_ins_idx, g_owe, g_hold, g_mydqn, g_dirty, g_seen_empty_locked

/* rely: what the other threads may do at a synchronisation point.  A list whose mutex this thread holds is not
 * changed; the counters move freely above this thread's own contributions. */
#define CONTRACT_interfere_n \
  __CPROVER_requires(n_ok(q)) \
  __CPROVER_assigns(q->queueListMutex.depth == 0: q->queueList.len) \
  __CPROVER_assigns(q->freeListMutex.depth == 0: q->freeList.len) \
  __CPROVER_assigns(q->queueEmptyCounter, q->queueNotifyCounter, q->queueListConditionVariable.notified) \
  __CPROVER_ensures(n_ok(q) && N_ROOM(q))
void interfere_n(Q *q) CONTRACT_interfere_n;
#undef INTERFERE_POINT
#define INTERFERE_POINT(s) interfere_n(g_q)

static inline void n_lock(Mutex *m)
{
  __CPROVER_assert(NOLOCKS(g_q), "deadlock freedom: a thread holds at most one mutex of the queue at a time (and calls no user code under it: the stubs require NOLOCKS)");
  interfere_n(g_q);
  mutex_lock_(m);
  if (m == &g_q->queueListMutex) { g_dirty = 0; g_seen_empty_locked = 0; }
}
static inline void n_unlock(Mutex *m)
{
  if (m == &g_q->queueListMutex) g_seen_empty_locked = 0;
  mutex_unlock_(m);
}
#undef MUTEX_LOCK
#undef MUTEX_UNLOCK
#define MUTEX_LOCK(m) n_lock(m)
#define MUTEX_UNLOCK(m) n_unlock(m)

/* (W1) bit 1: growth of queueList (the primitives below are the ones of prims_post.h plus the debt) */
static inline void n_grew(WList *d, long before)
{
  if (d == &g_q->queueList && d->len > before && g_hold == 0) g_owe |= 1;
}
static inline void n_splice_all(WList *d, WIt pos, WList *s) { long b = d->len; wl_splice_all(d, pos, s); n_grew(d, b); }
static inline void n_splice_one(WList *d, WIt pos, WList *s, WIt it) { long b = d->len; wl_splice_one(d, pos, s, it); n_grew(d, b); }
static inline void n_swap(WList *a, WList *b) { long la = a->len, lb = b->len; wl_swap(a, b); n_grew(a, la); n_grew(b, lb); }
#undef WLIST_SPLICE_ALL
#undef WLIST_SPLICE_ONE
#undef WLIST_SWAP
#define WLIST_SPLICE_ALL(d, pos, s) n_splice_all(d, pos, s)
#define WLIST_SPLICE_ONE(d, pos, s, it) n_splice_one(d, pos, s, it)
#define WLIST_SWAP(a, b) n_swap(a, b)
/* emplace_back is only used on thread-local lists and on freeList; on queueList it would be a growth as well */
static inline void n_emplace_back(WList *l) { long b = l->len; l->len++; n_grew(l, b); }
#undef WLIST_EMPLACE_BACK
#define WLIST_EMPLACE_BACK(l) n_emplace_back(l)

/* C06 "none disappears": a thread-local list dies empty -- every slot an operation takes out of the shared lists is
 * given back to one of them (an element destroyed with a local list would be an event lost, or a slot leaked) */
static inline void n_dtor(WList *l)
{
  __CPROVER_assert(l->len == 0, "no event is lost: a thread-local list is empty when it is destroyed (every slot taken out of the shared lists was given back)");
}
#undef WLIST_DTOR
#define WLIST_DTOR(l) n_dtor(l)

/* (W3) observations */
static inline _Bool n_list_empty(WList *l)
{
  _Bool e = (l->len == 0);
  if (l == &g_q->queueList && e && g_q->queueListMutex.depth == 1) g_seen_empty_locked = 1;
  return e;
}
#undef WLIST_EMPTY
#define WLIST_EMPTY(l) n_list_empty(l)
static inline int n_atomic_load(int *p)
{
  int v = *p;
  if (p == &g_q->queueNotifyCounter && v != 0) g_owe = 0;
  if (p == &g_q->queueEmptyCounter && v == 0 && g_seen_empty_locked && g_q->queueListMutex.depth == 1) g_owe = 0;
  return v;
}
#undef ATOMIC_LOAD
#define ATOMIC_LOAD(p) n_atomic_load(p)

/* the counters */
static inline int n_preinc(int *p)
{
  interfere_n(g_q);
  ++*p;
  if (p == &g_q->queueEmptyCounter) g_hold++;
  if (p == &g_q->queueNotifyCounter) g_mydqn++;
  return *p;
}
static inline int n_predec(int *p)
{
  interfere_n(g_q);
  if (p == &g_q->queueEmptyCounter) { __CPROVER_assert(g_hold >= 1, "a queueEmptyCounter guard is released only by the thread that holds it"); g_hold--; }
  if (p == &g_q->queueNotifyCounter) { __CPROVER_assert(g_mydqn >= 1, "queueNotifyCounter is decreased only by a live DisableQueueNotify"); g_mydqn--; }
  --*p;
  if (p == &g_q->queueNotifyCounter && *p == 0) { g_owe |= 2; if (g_q->queueListMutex.depth == 0) g_dirty = 1; }
  return *p;
}
/* a plain store to a counter: the difference is attributed to this thread (so a load ... store sequence that loses an
 * update of another thread shows up as a wrong number of guards held) */
static inline void n_store(int *p, int v)
{
  interfere_n(g_q);
  if (p == &g_q->queueEmptyCounter) g_hold += v - *p;
  if (p == &g_q->queueNotifyCounter) { g_mydqn += v - *p; if (v == 0 && *p != 0) { g_owe |= 2; if (g_q->queueListMutex.depth == 0) g_dirty = 1; } }
  *p = v;
}
static inline int n_exchange(int *p, int v) { int o = *p; n_store(p, v); return o; }
#undef ATOMIC_STORE
#undef ATOMIC_EXCHANGE
#define ATOMIC_STORE(p, v) n_store(p, v)
#define ATOMIC_EXCHANGE(p, v) n_exchange(p, v)
#undef ATOMIC_PREINC
#undef ATOMIC_PREDEC
#undef ATOMIC_POSTINC
#undef ATOMIC_POSTDEC
#undef NOTIFYCNT_PREINC
#undef NOTIFYCNT_PREDEC
#define ATOMIC_PREINC(p) n_preinc(p)
#define ATOMIC_PREDEC(p) n_predec(p)
#define ATOMIC_POSTINC(p) (n_preinc(p) - 1)
#define ATOMIC_POSTDEC(p) (n_predec(p) + 1)
#define NOTIFYCNT_PREINC(p) n_preinc(p)
#define NOTIFYCNT_PREDEC(p) n_predec(p)

/* (W2) */
#undef CONDVAR_NOTIFY_ONE
#undef CONDVAR_NOTIFY_ALL
#define CONDVAR_NOTIFY_ONE(c) (__CPROVER_assert(!g_dirty, "monitor discipline: the predicate-enabling write is ordered with the waiter's check by queueListMutex before notify (else the wake-up can be lost)"), g_owe = 0, (c)->notified++)
#define CONDVAR_NOTIFY_ALL(c) CONDVAR_NOTIFY_ONE(c)

/* ------------------------------------------------------------------ environment in this mode: listeners and predicates
 * are arbitrary code of the same thread; whatever queue operations they perform obey (W1)-(W4) themselves, so they leave
 * the debt and the thread's own guards as they found them; the shared state moves like under interference */
#define N_ENV(q) \
  __CPROVER_requires(NOLOCKS(q) && n_ok(q) && !g_seen_empty_locked) \
  __CPROVER_assigns((q)->queueList.len, (q)->freeList.len, (q)->queueEmptyCounter, (q)->queueNotifyCounter, (q)->queueListConditionVariable.notified, g_anon) \
  __CPROVER_ensures(NOLOCKS(q) && n_ok(q) && N_ROOM(q))
#undef CONTRACT_DispatcherBase_directDispatch
#define CONTRACT_DispatcherBase_directDispatch N_ENV(QQ)
#undef PRED_CONTRACT
#define PRED_CONTRACT N_ENV(self)

/* ------------------------------------------------------------------ the obligations */
#undef CONTRACT_Q_doEnqueue
#define CONTRACT_Q_doEnqueue \
  __CPROVER_requires(Q_FRESH(self) && __CPROVER_is_fresh(item, sizeof(QueuedEvent))) \
  __CPROVER_requires(__CPROVER_pointer_equals(g_q, self) && NOLOCKS(self) && n_ok(self) && N_ROOM(self) && g_owe == 0 && !g_dirty && !g_seen_empty_locked) \
  __CPROVER_assigns(N_FRAME(self), item->arguments.a0.id) \
  __CPROVER_ensures(NOLOCKS(self) && n_ok(self) && !g_dirty && g_hold == __CPROVER_old(g_hold) && g_mydqn == __CPROVER_old(g_mydqn)) \
  __CPROVER_ensures(g_hold == 0 ==> g_owe == 1)                       /* the insertion is an enabling write */ \
  __CPROVER_ensures(g_hold != 0 ==> g_owe == 0)
#undef ENQ_CONTRACT
#define ENQ_CONTRACT(LV) \
  __CPROVER_requires(Q_FRESH(self) && ENQ_ARGS_FRESH && N_PRE(self)) \
  __CPROVER_assigns(N_FRAME(self), args->id) \
  __CPROVER_ensures(N_POST(self) && g_hold == __CPROVER_old(g_hold) && g_mydqn == __CPROVER_old(g_mydqn))
#undef CONTRACT_DisableQueueNotify_dtor
#define CONTRACT_DisableQueueNotify_dtor \
  __CPROVER_requires(__CPROVER_is_fresh(self, sizeof(DisableQueueNotify)) && Q_FRESH(self->queue) && N_PRE(self->queue) && g_mydqn >= 1) \
  __CPROVER_assigns(N_FRAME(self->queue)) \
  __CPROVER_ensures(N_POST(self->queue) && g_hold == __CPROVER_old(g_hold) && g_mydqn == __CPROVER_old(g_mydqn) - 1)
#undef CONTRACT_DisableQueueNotify_ctor1
#define CONTRACT_DisableQueueNotify_ctor1 \
  __CPROVER_requires(__CPROVER_is_fresh(self, sizeof(DisableQueueNotify)) && Q_FRESH(queue) && N_PRE(queue)) \
  __CPROVER_assigns(N_FRAME(queue), self->queue) \
  __CPROVER_ensures(N_POST(queue) && g_hold == __CPROVER_old(g_hold) && g_mydqn == __CPROVER_old(g_mydqn) + 1)

/* CounterGuard: exactly one guard more / less, whatever the other threads do meanwhile (the counter is changed by one
 * atomic read-modify-write) */
#define CONTRACT_CounterGuard_ctor1 \
  __CPROVER_requires(__CPROVER_is_fresh(self, sizeof(CounterGuard)) && Q_FRESH(g_q) && __CPROVER_pointer_equals(v, &g_q->queueEmptyCounter) && n_ok(g_q) && N_ROOM(g_q) && g_hold < 1000) \
  __CPROVER_assigns(N_FRAME(g_q), self->value) \
  __CPROVER_ensures(n_ok(g_q) && g_hold == __CPROVER_old(g_hold) + 1 && self->value == &g_q->queueEmptyCounter && g_owe == __CPROVER_old(g_owe))
#define CONTRACT_CounterGuard_dtor \
  __CPROVER_requires(__CPROVER_is_fresh(self, sizeof(CounterGuard)) && Q_FRESH(g_q) && __CPROVER_pointer_equals(self->value, &g_q->queueEmptyCounter) && n_ok(g_q) && N_ROOM(g_q) && g_hold >= 1) \
  __CPROVER_assigns(N_FRAME(g_q)) \
  __CPROVER_ensures(n_ok(g_q) && g_hold == __CPROVER_old(g_hold) - 1 && g_owe == __CPROVER_old(g_owe))

#define N_PROC_CONTRACT(EXTRA) \
  __CPROVER_requires(Q_FRESH(self) && N_PRE(self) EXTRA) \
  __CPROVER_assigns(N_FRAME(self)) \
  __CPROVER_ensures(N_POST(self) && g_hold == __CPROVER_old(g_hold) && g_mydqn == __CPROVER_old(g_mydqn))
#undef CONTRACT_Q_process
#define CONTRACT_Q_process N_PROC_CONTRACT()
#undef CONTRACT_Q_processOne
#define CONTRACT_Q_processOne N_PROC_CONTRACT()
#undef CONTRACT_Q_clearEvents
#define CONTRACT_Q_clearEvents N_PROC_CONTRACT()
#undef CONTRACT_Q_takeEvent
#define CONTRACT_Q_takeEvent \
  __CPROVER_requires(Q_FRESH(self) && __CPROVER_is_fresh(queuedEvent, sizeof(QueuedEvent)) && N_PRE(self)) \
  __CPROVER_assigns(N_FRAME(self), *queuedEvent) \
  __CPROVER_ensures(N_POST(self) && g_hold == __CPROVER_old(g_hold) && g_mydqn == __CPROVER_old(g_mydqn))
#undef PIF_CONTRACT
#define PIF_CONTRACT N_PROC_CONTRACT(&& __CPROVER_is_fresh(predictor, sizeof(*predictor)))
#undef CONTRACT_Q_processUntil__UserPred
#define CONTRACT_Q_processUntil__UserPred N_PROC_CONTRACT(&& __CPROVER_is_fresh(predictor, sizeof(*predictor)))

/* loops of the processing calls: the thread holds exactly one guard more than at entry, owes nothing, holds no lock */
#define N_LOOP_INV \
  __CPROVER_loop_invariant(NOLOCKS(self) && N_OK(self) && g_owe == 0 && !g_dirty && !g_seen_empty_locked && g_hold >= 1) \
  __CPROVER_loop_invariant(g_hold == __CPROVER_loop_entry(g_hold) && g_mydqn == __CPROVER_loop_entry(g_mydqn))
#define N_LOOP_FRAME self->queueList.len, self->freeList.len, self->queueEmptyCounter, self->queueNotifyCounter, self->queueListConditionVariable.notified, g_anon, g_rm_list, g_rm_idx, g_ins_list, g_ins_idx
#undef LOOP_CONTRACT_Q_process__loop0
#define LOOP_CONTRACT_Q_process__loop0 \
  __CPROVER_assigns(__begin_L0.i, N_LOOP_FRAME) \
  __CPROVER_loop_invariant(0 <= __begin_L0.i && __begin_L0.i <= tempList.len && NOWIT(tempList) && tempList.len < (1L << 61)) \
  N_LOOP_INV \
  __CPROVER_decreases(tempList.len - __begin_L0.i)
#undef LOOP_CONTRACT_Q_clearEvents__loop0
#define LOOP_CONTRACT_Q_clearEvents__loop0 \
  __CPROVER_assigns(__begin_L0.i, g_anon) \
  __CPROVER_loop_invariant(0 <= __begin_L0.i && __begin_L0.i <= tempList.len && NOWIT(tempList)) \
  __CPROVER_decreases(tempList.len - __begin_L0.i)
#undef PIF_LOOP
#define PIF_LOOP \
  __CPROVER_assigns(it, tempList.len, idleList.len, N_LOOP_FRAME) \
  __CPROVER_loop_invariant(it.l == &tempList && 0 <= it.i && it.i <= tempList.len && NOWIT(tempList) && NOWIT(idleList) && tempList.len >= 0 && idleList.len >= 0 && tempList.len < (1L << 60) && idleList.len < (1L << 60)) \
  __CPROVER_loop_invariant(tempList.len + idleList.len == __CPROVER_loop_entry(tempList.len)) \
  N_LOOP_INV \
  __CPROVER_decreases(tempList.len - it.i)
#undef PUN_LOOP
#define PUN_LOOP PIF_LOOP
#endif
