/* TRUSTED primitives: the C meaning given to the closed std:: vocabulary of the extracted code.
 * Nothing in this file is verified; it is the "assumed contracts on dependencies" part of the
 * trusted base and is listed as such in every evidence file.
 *
 *   std::shared_ptr<N>   -> N*      garbage-collected view: an object lives as long as it is referenced;
 *                                   copy = pointer copy, move = copy + source becomes null, reset = null
 *   std::mutex/SpinLock  -> Mutex   ghost lock depth; re-locking a held mutex / unlocking a free one is an
 *                                   obligation failure (std::mutex is not recursive)
 *   std::atomic<T>       -> T       every access sequentially consistent, memory orders ignored
 *   std::function        -> Callback{id}  opaque identity; copying preserves the identity
 */
#ifndef VERIF_PRIMS_H
#define VERIF_PRIMS_H
#include <stddef.h>

typedef struct Mutex { int depth; int kind; } Mutex;    /* kind (ghost): which mutex of its owner this is, set by the unit spec */
typedef struct Callback { int id; } Callback;

/* exception mode: a may-throw primitive sets g_exc nondeterministically; the extractor emits the
 * unwinding edge after every may-throw call */
extern int g_exc;
#ifdef MODE_EXC
#define EXC_PENDING (g_exc)
#else
#define EXC_PENDING 0
#endif

/* ghost clock: incremented by every add / remove event (64 bit, assumed not to overflow) */
extern unsigned long long g_clock;
extern _Bool g_b0, g_b1, g_b2, g_b3;              /* snapshot ghosts, see ghost_globals.h */
extern unsigned long long g_u0, g_u1, g_u2, g_u3;

static inline void mutex_lock_(Mutex *m)
{
  __CPROVER_assert(m->depth == 0, "lock discipline: locking a mutex this thread already holds (std::mutex is not recursive)");
  m->depth = 1;
}
static inline void mutex_unlock_(Mutex *m)
{
  __CPROVER_assert(m->depth == 1, "lock discipline: unlocking a mutex that is not held");
  m->depth = 0;
}
#define MUTEX_LOCK(m)   mutex_lock_(m)
#ifndef MUTEX_UNLOCK
#define MUTEX_UNLOCK(m) mutex_unlock_(m)
#endif
#define MUTEX_INIT(m)   ((m)->depth = 0)
#ifndef MUTEX_MEMBER_INIT
#define MUTEX_MEMBER_INIT(m, s, name) MUTEX_INIT(m)
#endif
/* interference point: an unlocked read of shared state; other threads may run here (concurrent mode only) */
#ifndef INTERFERE_POINT
#define INTERFERE_POINT(s) ((void)0)
#endif

#define ATOMIC_LOAD(p)        (*(p))
#define ATOMIC_STORE(p, v)    (*(p) = (v))
#define ATOMIC_INIT(p, v)     (*(p) = (v))
#define ATOMIC_PREINC(p)      (++*(p))
#define ATOMIC_POSTINC(p)     ((*(p))++)
#define ATOMIC_PREDEC(p)      (--*(p))
#define ATOMIC_POSTDEC(p)     ((*(p))--)
#define ATOMIC_EXCHANGE(p, v) ({ __typeof__(*(p)) __o = *(p); *(p) = (v); __o; })

#define SP_MOVE(pp)      ({ __typeof__(*(pp)) __t = *(pp); *(pp) = NULL; __t; })
#define SP_SWAP(a, b)    do { __typeof__(*(a)) __t = *(a); *(a) = *(b); *(b) = __t; } while (0)
#define SP_RELEASE(pp)   (*(pp) = NULL)

#define CALLBACK_COPY(p) (*(p))
#define CALLBACK_MOVE(p) (*(p))

/* vacuity guard: with -DVACUITY_CHECK every function exit carries an assertion that MUST be reported as
 * failed for the function under proof (its precondition is satisfiable and the exit is reachable) */
#ifdef VACUITY_CHECK
#define VACUITY_REACH(fn, k) __CPROVER_assert(0, "VACUITY-REACH " #fn " exit " #k)
#else
#define VACUITY_REACH(fn, k) ((void)0)
#endif

#endif
