/* definitions of the ghost globals (one translation unit per harness) */
int g_exc;
unsigned long long g_clock;
unsigned long long g_next_rank;
unsigned long long g_T, g_lastCalledRank;
unsigned int g_c;
int g_W_calls;
