/* definitions of the ghost globals (one translation unit per harness) */
int g_exc;
unsigned long long g_clock;
unsigned long long g_next_rank;
unsigned long long g_T, g_lastCalledRank;
unsigned int g_c;
int g_W_calls;
/* snapshot ghosts: __CPROVER_old accepts lvalues only, so compound pre-state facts are bound to these by a
 * `requires(g_bN == <pre-state expression>)` and read back in `ensures` (nothing assigns them) */
_Bool g_b0, g_b1, g_b2, g_b3;
unsigned long long g_u0, g_u1, g_u2, g_u3;
