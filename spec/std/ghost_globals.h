/* definitions of the ghost globals (one translation unit per harness) */
int g_exc;
unsigned long long g_clock;
unsigned long long g_next_rank;
unsigned long long g_T, g_lastCalledRank;
unsigned int g_c;
int g_W_calls;
/* snapshot ghosts: __CPROVER_old accepts lvalues only, so compound pre-state facts are bound to these by a
 * `requires(g_bN == <pre-state expression>)` and read back in `ensures` (nothing assigns them) */
_Bool g_b0, g_b1, g_b2, g_b3;
unsigned long long g_u0, g_u1, g_u2, g_u3;
#ifdef UNIT_QUEUE
Slot g_S[2]; Slot g_anon; _Bool g_cons[2]; int g_argid[2]; int g_disp[2]; unsigned long g_seq, g_dseq[2]; _Bool g_born[2]; _Bool g_taken[2]; _Bool g_dead[2];
const char g_dtor_tag_QueuedEvent;
WList *g_rm_list; long g_rm_idx; WList *g_ins_list; long g_ins_idx;
#endif
#ifdef UNIT_QUEUE
int g_pred[2]; _Bool g_verdict[2]; int g_up_n, g_up_arg; _Bool g_up_ret;
#endif
_Bool g_dirty;
int g_w11;
#ifdef UNIT_QUEUE
Q *g_q; int g_owe, g_hold, g_mydqn; _Bool g_seen_empty_locked;
#endif
#ifdef UNIT_ORDERED
Slot g_S[2]; Slot g_anon; WList *g_rm_list; long g_rm_idx; WList *g_ins_list; long g_ins_idx; _Bool g_lt01, g_lt10, g_sort_calls;
#endif
#ifdef UNIT_SCOPEDREMOVER
Node *g_H; _Bool g_created, g_att, g_H_held, g_other_alive; CLT *g_att_cl; EDT *g_att_ed; int g_att_ev; ItemC g_IC, g_anonC; ItemD g_ID, g_anonD; int g_removes_H, g_removes_foreign;
#endif
#ifdef UNIT_REMOVERS
void *g_wrapped_data; int g_arg; int g_l_calls, g_rm_calls, g_c_calls; unsigned long g_seq, g_l_seq, g_rm_seq; _Bool g_cond; void *g_cur_cond; void *g_cur_target; Node *g_cur_handle; int g_cur_event; void *g_cur_data; Node *g_new_handle;
#endif
#ifdef UNIT_DISPATCHER
int g_K; WPair g_anonP; int g_n, g_op; CLT *g_cl; int g_cbid; Node *g_hp; void *g_fn; Node *g_rh; _Bool g_rb; unsigned long g_seq, g_call_seq, g_mix_seq;
int g_mix_n; _Bool g_mix_ret; int g_mix_postid; void *g_mix_self; int g_dd_n, g_dd_key, g_dd_arg; struct Mutex *g_dmutex;
VArg *g_fe_args; CLT *g_fe_list; int g_fe_n; _Bool g_fe_ret; int g_cb_n; VArg *g_cb_arg; _Bool g_cb_ret; Callback *g_cb_f;
#endif
#ifdef UNIT_HDISPATCHER
int g_K; WPair g_anonP; int g_n; HCLT *g_cl; int g_kind; int g_cbid; struct Mutex *g_dmutex;
int g_op; const void *g_cb; Handle g_hp, g_rh; _Bool g_rb;
#endif
#ifdef UNIT_CALLBACKLIST
int g_cs_reads; Mutex *g_cs_mutex;
int g_cbk_n; Callback *g_cbk_f; int g_cbk_arg; Node *g_cbk_h; int g_cci_n, g_cci_arg; _Bool g_cci_ret, g_vis_ret;
#endif
#ifdef UNIT_ANYDATA
int g_small_ctor, g_small_dtor, g_big_ctor, g_big_dtor;
const char g_tag_funcFreeObject_Small, g_tag_funcFreeObject_LD, g_tag_funcFreeObject_Big, g_tag_funcMoveConstruct_Small, g_tag_funcMoveConstruct_LD, g_tag_funcMoveConstruct_Big, g_tag_funcDeleteObject_Small, g_tag_funcDeleteObject_Big;
#endif
#ifdef UNIT_HQUEUE
Slot g_S0, g_anon; int g_kind, g_kind_was, g_argid, g_event, g_disp, g_pred; _Bool g_verdict, g_born, g_dead, g_cur_is_w; void *g_cur_addr; unsigned long g_seq;
const char g_dtor_tag_ItemV, g_dtor_tag_ItemW; WList *g_rm_list; long g_rm_idx; WList *g_ins_list; long g_ins_idx;
#endif
#ifdef UNIT_EVENTUTIL
int g_rm_n; void *g_rm_target; Node *g_rm_h; int g_rm_ev; int g_fe_n; void *g_fe_target; int g_fe_ev; _Bool *g_fe_found; _Bool g_fe_found_val; void *g_fe_cap_target; FnPtr *g_fe_cap_cb; int *g_fe_cap_ev;
#endif
