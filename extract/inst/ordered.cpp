// instantiation TU for unit "ordered": OrderedQueueList over the queue's slot type with a user comparator
#include <eventpp/eventqueue.h>
#include <eventpp/utilities/orderedqueuelist.h>
struct VArg { int id; VArg(); VArg(const VArg &); VArg(VArg &&); VArg & operator=(const VArg &); VArg & operator=(VArg &&); ~VArg(); };
struct QEvent { int event; VArg arg; };
struct UserCompare { bool operator()(const QEvent & a, const QEvent & b) const; };
using Slot = eventpp::internal_::BufferedItem<QEvent>;
using OQL = eventpp::OrderedQueueList<Slot, UserCompare>;
using OQLD = eventpp::OrderedQueueList<Slot>;
void use(OQL & a, OQL & b, OQLD & c, OQLD & d) { a.splice(a.begin(), b); a.splice(a.end(), b, b.begin()); c.splice(c.begin(), d); }
