// instantiation TU for unit "callbacklist": abstract argument type, multi-threaded policy
#include <eventpp/callbacklist.h>
struct VArg { int id; };
struct Pol { using Threading = eventpp::MultipleThreading; };
template class eventpp::internal_::CallbackListBase<void(VArg), Pol>;
using CL = eventpp::CallbackList<void(VArg), Pol>;
struct UserEach { void operator()(const CL::Handle &, CL::Callback &) const; };
struct UserEachIf { bool operator()(CL::Callback &) const; };
void use(CL & cl, VArg a, UserEach & e, UserEachIf & f) { cl(a); cl.forEach(e); cl.forEachIf(f); }
