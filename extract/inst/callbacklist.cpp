// instantiation TU for unit "callbacklist": abstract argument type, multi-threaded policy
#include <eventpp/callbacklist.h>
struct VArg { int id; VArg(); VArg(const VArg &); VArg(VArg &&); VArg & operator=(const VArg &); VArg & operator=(VArg &&); ~VArg(); };
// the policy takes the argument BY VALUE, so that moving the invocation's argument into it would be visible
struct Pol { using Threading = eventpp::MultipleThreading; static bool canContinueInvoking(VArg a); };
template class eventpp::internal_::CallbackListBase<void(VArg), Pol>;
using CL = eventpp::CallbackList<void(VArg), Pol>;
struct UserEach { void operator()(const CL::Handle &, CL::Callback &) const; };
struct UserEachIf { bool operator()(CL::Callback &) const; };
void use(CL & cl, VArg a, UserEach & e, UserEachIf & f) { cl(a); cl.forEach(e); cl.forEachIf(f); }
