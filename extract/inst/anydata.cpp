// instantiation TU for unit "anydata": AnyData<16> (so maxSize == sizeof(LargeData) == 16) holding a small opaque
// user type (fits inline) and a big one (goes to the heap through LargeData)
#include <eventpp/utilities/anydata.h>
struct Small { int id; Small(const Small &); Small(Small &&); ~Small(); };
struct Big { int id; char pad[100]; Big(const Big &); Big(Big &&); ~Big(); };
using AD = eventpp::AnyData<16>;
void use(Small & s, Big & b, AD & x) {
	AD a(s); AD a2(std::move(s)); AD c(b); AD c2(std::move(b)); AD m(std::move(x));
	a.get<Small>(); c.get<Big>(); a.getAddress();
	a.isType<Small>(); a.isType<Big>(); 
	(void)(Small &)a; (void)(Small *)a; (void)(Big &)c;
}
