// instantiation TU for unit "removers": CounterRemover / ConditionalRemover, both specialisations
#include <eventpp/callbacklist.h>
#include <eventpp/eventdispatcher.h>
#include <eventpp/utilities/counterremover.h>
#include <eventpp/utilities/conditionalremover.h>
struct VArg { int id; };
struct Pol { using Threading = eventpp::MultipleThreading; };
using CLT = eventpp::CallbackList<void(VArg), Pol>;
using EDT = eventpp::EventDispatcher<int, void(VArg), Pol>;
struct UserL { void operator()(VArg) const; };
struct UserCond { bool operator()(VArg) const; };
struct UserCond0 { bool operator()() const; };
void use(CLT & cl, EDT & ed, UserL & l, UserCond & c, UserCond0 & c0, CLT::Handle & h) {
	eventpp::counterRemover(cl).append(l, 3); eventpp::counterRemover(cl).prepend(l, 3); eventpp::counterRemover(cl).insert(l, h, 3);
	eventpp::counterRemover(ed).appendListener(1, l, 3); eventpp::counterRemover(ed).prependListener(1, l, 3); eventpp::counterRemover(ed).insertListener(1, l, h, 3);
	eventpp::conditionalRemover(cl).append(l, c); eventpp::conditionalRemover(cl).append(l, c0);
	eventpp::conditionalRemover(ed).appendListener(1, l, c); eventpp::conditionalRemover(ed).appendListener(1, l, c0);
}
