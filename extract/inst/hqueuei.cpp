// instantiation TU for unit "hqueuei": HeterEventQueue with the event INCLUDED in the arguments
// (ArgumentPassingIncludeEvent): selects the other doEnqueue overload, whose item is built from
// getEvent(std::forward<T>(first), ...) and ArgsTuple(std::forward<T>(first), ...) in ONE constructor call.
// The user getEvent policy reads its argument through a const reference (it never moves from it).
#include <eventpp/hetereventqueue.h>
struct VArg { int id; VArg(); VArg(const VArg &); VArg(VArg &&); VArg & operator=(const VArg &); VArg & operator=(VArg &&); ~VArg(); };
struct WArg { int id; int extra; WArg(); WArg(const WArg &); WArg(WArg &&); WArg & operator=(const WArg &); WArg & operator=(WArg &&); ~WArg(); };
struct Pol {
	using Threading = eventpp::MultipleThreading;
	using ArgumentPassingMode = eventpp::ArgumentPassingIncludeEvent;
	static int getEvent(const VArg & a);
	static int getEvent(const WArg & a);
};
using HQ = eventpp::HeterEventQueue<int, eventpp::HeterTuple<void (VArg), void (WArg)>, Pol>;
struct PredV { bool operator()(VArg) const; };
struct PredW { bool operator()(WArg) const; };
void use(HQ & q, VArg a, WArg w, PredV & pv, PredW & pw) {
	q.enqueue(a); q.enqueue(VArg()); q.enqueue(w); q.enqueue(WArg());
	q.process(); q.processOne(); q.processIf(pv); q.processIf(pw);
	q.clearEvents(); q.emptyQueue(); q.wait(); q.waitFor(std::chrono::milliseconds(1));
}
