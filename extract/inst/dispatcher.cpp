// instantiation TU for unit "dispatcher": int event key, one opaque by-value class-type argument, multi-threaded policy,
// a user getEvent policy reading the argument, and the MixinFilter mixin
#include <eventpp/eventdispatcher.h>
#include <eventpp/mixins/mixinfilter.h>
struct VArg { int id; VArg(); VArg(const VArg &); VArg(VArg &&); VArg & operator=(const VArg &); VArg & operator=(VArg &&); ~VArg(); };
struct Pol {
	using Threading = eventpp::MultipleThreading;
	static int getEvent(VArg a);      // by value: moving the caller's argument into it would be visible
	using Mixins = eventpp::MixinList<eventpp::MixinFilter>;
};
struct PolX {
	using Threading = eventpp::MultipleThreading;
	using ArgumentPassingMode = eventpp::ArgumentPassingExcludeEvent;
};
struct PolY {
	using Threading = eventpp::MultipleThreading;
	using ArgumentPassingMode = eventpp::ArgumentPassingExcludeEvent;
	static int getEvent(int first, VArg a);      // exclude-event form WITH a user policy
};
using ED = eventpp::EventDispatcher<int, void(VArg), Pol>;
using EDY = eventpp::EventDispatcher<int, void(VArg), PolY>;
using EDX = eventpp::EventDispatcher<int, void(VArg), PolX>;
struct UserEach { void operator()(const ED::Handle &, const ED::Callback &) const; };
struct UserEachIf { bool operator()(const ED::Handle &, const ED::Callback &) const; };
void use(ED & d, ED & d2, EDX & x, EDY & y, VArg a, ED::Callback & cb, ED::Handle & h, UserEach & f, UserEachIf & g, ED::FilterHandle & fh) {
	ED e0; ED e1(d); ED e2(std::move(d2)); e0 = d; e0 = std::move(e1); e0.swap(e2); swap(e0, e2);
	d.appendListener(1, cb); d.prependListener(1, cb); d.insertListener(1, cb, h); d.removeListener(1, h);
	d.hasAnyListener(1); d.ownsHandle(1, h); d.forEach(1, f); d.forEachIf(1, g);
	d.dispatch(a); d.dispatch(VArg());
	x.dispatch(1, a);
	y.dispatch(1, a);
	d.removeFilter(fh);
}
