// instantiation TU for unit "queuex": the same queue with the event passed SEPARATELY from the arguments
// (ArgumentPassingExcludeEvent), which selects the other enqueue overload: enqueue(T && first, A && ...args)
#include <eventpp/eventqueue.h>
struct VArg { int id; VArg(); VArg(const VArg &); VArg(VArg &&); VArg & operator=(const VArg &); VArg & operator=(VArg &&); ~VArg(); };
struct Pol {
	using Threading = eventpp::MultipleThreading;
	using ArgumentPassingMode = eventpp::ArgumentPassingExcludeEvent;
};
using Q = eventpp::EventQueue<int, void(VArg), Pol>;
template class eventpp::internal_::EventQueueBase<int, void(VArg), Pol>;
void use(Q & q, VArg a, int e) {
	q.enqueue(e, a); q.enqueue(3, VArg());
}
