// instantiation TU for unit "hdispatcher": HeterEventDispatcher with two prototypes taking different opaque class-type
// arguments, in both argument-passing forms.  PolI: the event is INCLUDED in the arguments and obtained by a user
// getEvent policy that takes its argument BY VALUE (so that moving the caller's argument into it is visible);
// PolX: the event is passed separately (default getEvent).  The per-event HeterCallbackList is outside the unit.
#include <eventpp/hetereventdispatcher.h>
struct VArg { int id; VArg(); VArg(const VArg &); VArg(VArg &&); VArg & operator=(const VArg &); VArg & operator=(VArg &&); ~VArg(); };
struct WArg { int id; int extra; WArg(); WArg(const WArg &); WArg(WArg &&); WArg & operator=(const WArg &); WArg & operator=(WArg &&); ~WArg(); };
struct PolI {
	using Threading = eventpp::MultipleThreading;
	using ArgumentPassingMode = eventpp::ArgumentPassingIncludeEvent;
	static int getEvent(VArg a);
	static int getEvent(WArg a);
};
struct PolX {
	using Threading = eventpp::MultipleThreading;
};
using HDI = eventpp::HeterEventDispatcher<int, eventpp::HeterTuple<void (VArg), void (WArg)>, PolI>;
using HDX = eventpp::HeterEventDispatcher<int, eventpp::HeterTuple<void (VArg), void (WArg)>, PolX>;
struct CbV { void operator()(VArg) const; };      // user callbacks: one per prototype
struct CbW { void operator()(WArg) const; };
void use(HDI & d, HDX & x, VArg a, WArg w, CbV & cv, CbW & cw, HDX::Handle & h) {
	x.appendListener(1, cv); x.appendListener(2, cw); x.prependListener(1, cv); x.insertListener(1, cv, h);
	x.removeListener(1, h); x.hasAnyListener(1);
	HDX e0; HDX e1(x); HDX e2(std::move(e1)); e0 = x; e0 = std::move(e2); e0.swap(e1);      // construction, assignment, swap
	d.dispatch(a); d.dispatch(VArg()); d.dispatch(w); d.dispatch(WArg());
	x.dispatch(1, a); x.dispatch(2, WArg());
}
