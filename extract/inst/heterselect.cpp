// instantiation TU for unit "heterselect" (C14, compile-time half): which prototype the library selects, next to an
// oracle written directly from the property ("the FIRST LISTED prototype callable with the argument types" /
// "the first listed prototype the callback can be called with").  Every enumerator of Facts is folded by clang and
// exported to the C side as SELECTION_FACTS; nothing here is executed.
#include <eventpp/hetercallbacklist.h>
#include <string>
namespace oracle {
// P = R(Args...) is callable with In... : the language's own notion, asked through a pointer to function
template <typename P, typename ...In> struct Callable {
	template <typename Q> static auto t(int) -> decltype((*static_cast<typename std::add_pointer<Q>::type>(nullptr))(std::declval<In>()...), char());
	template <typename Q> static long t(...);
	enum { value = (sizeof(t<P>(0)) == 1) };
};
// F (a callable object type) can be called with the declared parameters of P
template <typename F, typename P> struct Accepts;
template <typename F, typename R, typename ...A> struct Accepts<F, R (A...)> {
	template <typename G> static auto t(int) -> decltype(std::declval<G>()(std::declval<A>()...), char());
	template <typename G> static long t(...);
	enum { value = (sizeof(t<F>(0)) == 1) };
};
template <int N, typename List, typename ...In> struct FirstByArgs;
template <int N, typename P, typename ...Ps, typename ...In> struct FirstByArgs<N, eventpp::HeterTuple<P, Ps...>, In...> {
	enum { value = Callable<P, In...>::value ? N : int(FirstByArgs<N + 1, eventpp::HeterTuple<Ps...>, In...>::value) };
};
template <int N, typename ...In> struct FirstByArgs<N, eventpp::HeterTuple<>, In...> { enum { value = -1 }; };
template <int N, typename List, typename F> struct FirstByCallable;
template <int N, typename P, typename ...Ps, typename F> struct FirstByCallable<N, eventpp::HeterTuple<P, Ps...>, F> {
	enum { value = Accepts<F, P>::value ? N : int(FirstByCallable<N + 1, eventpp::HeterTuple<Ps...>, F>::value) };
};
template <int N, typename F> struct FirstByCallable<N, eventpp::HeterTuple<>, F> { enum { value = -1 }; };
}
using eventpp::HeterTuple;
using eventpp::internal_::FindPrototypeByArgs;
using eventpp::internal_::FindPrototypeByCallable;
struct Widget { int v; };
struct TakesInt { void operator()(int) const; };
struct TakesString { void operator()(const std::string &) const; };
struct TakesIntRef { void operator()(int &) const; };
struct TakesWidget { void operator()(Widget) const; };
struct TakesNothing { void operator()() const; };
typedef HeterTuple<void (int), void (long)> L1;
typedef HeterTuple<void (int &), void (long)> L2;
typedef HeterTuple<void (std::string), void (const char *)> L3;
typedef HeterTuple<void (const std::string &), void (int)> L4;
typedef HeterTuple<void (), void (int), void (int, std::string), void (Widget)> L5;
typedef HeterTuple<void (std::string &), void (std::string)> L6;
#define BY_ARGS(k, List, ...) got_##k = FindPrototypeByArgs<List, __VA_ARGS__>::index, want_##k = oracle::FirstByArgs<0, List, __VA_ARGS__>::value
#define BY_ARGS0(k, List) got_##k = FindPrototypeByArgs<List>::index, want_##k = oracle::FirstByArgs<0, List>::value
#define BY_CALLABLE(k, List, F) got_##k = FindPrototypeByCallable<List, F>::index, want_##k = oracle::FirstByCallable<0, List, F>::value
struct Facts { enum {
	BY_ARGS(0, L1, int), BY_ARGS(1, L1, long), BY_ARGS(2, L1, int &), BY_ARGS(3, L1, const char *),
	BY_ARGS(4, L2, int &), BY_ARGS(5, L2, int), BY_ARGS(6, L2, const int &), BY_ARGS(7, L2, long &),
	BY_ARGS(8, L3, const char *), BY_ARGS(9, L3, std::string), BY_ARGS(10, L3, std::string &),
	BY_ARGS(11, L4, int), BY_ARGS(12, L4, std::string), BY_ARGS(13, L4, const char (&)[4]),
	BY_ARGS0(14, L5), BY_ARGS(15, L5, int), BY_ARGS(16, L5, int, const char *), BY_ARGS(17, L5, Widget), BY_ARGS(18, L5, Widget &), BY_ARGS(19, L5, int, int),
	BY_ARGS(20, L6, std::string &), BY_ARGS(21, L6, std::string), BY_ARGS(22, L6, const std::string &),
	BY_CALLABLE(23, L1, TakesInt), BY_CALLABLE(24, L4, TakesInt), BY_CALLABLE(25, L4, TakesString), BY_CALLABLE(26, L2, TakesIntRef),
	BY_CALLABLE(27, L5, TakesWidget), BY_CALLABLE(28, L5, TakesNothing), BY_CALLABLE(29, L5, TakesInt), BY_CALLABLE(30, L3, TakesInt), BY_CALLABLE(31, L6, TakesString)
}; };
