// instantiation TU for unit "scopedremover": both ScopedRemover specialisations
#include <eventpp/callbacklist.h>
#include <eventpp/eventdispatcher.h>
#include <eventpp/utilities/scopedremover.h>
struct VArg { int id; };
struct Pol { using Threading = eventpp::MultipleThreading; };
using CLT = eventpp::CallbackList<void(VArg), Pol>;
using EDT = eventpp::EventDispatcher<int, void(VArg), Pol>;
using SRC = eventpp::ScopedRemover<CLT>;
using SRD = eventpp::ScopedRemover<EDT>;
void use(SRC & a, SRC & b, CLT & cl, CLT::Callback & cb, CLT::Handle & h, SRD & c, SRD & d, EDT & ed) {
	SRC e0; SRC e1(cl); SRD f0; SRD f1(ed);
	SRC x(std::move(a)); a = std::move(b); a.swap(b); a.reset(); a.setCallbackList(cl);
	a.append(cb); a.prepend(cb); a.insert(cb, h); a.remove(h);
	SRD y(std::move(c)); c = std::move(d); c.swap(d); c.reset(); c.setDispatcher(ed);
	c.appendListener(1, cb); c.prependListener(1, cb); c.insertListener(1, cb, h); c.removeListener(1, h);
}
