// instantiation TU for unit "hqueue": HeterEventQueue with two prototypes taking different opaque argument types
#include <eventpp/hetereventqueue.h>
struct VArg { int id; VArg(); VArg(const VArg &); VArg(VArg &&); VArg & operator=(const VArg &); VArg & operator=(VArg &&); ~VArg(); };
struct WArg { int id; int extra; WArg(); WArg(const WArg &); WArg(WArg &&); WArg & operator=(const WArg &); WArg & operator=(WArg &&); ~WArg(); };
struct Pol { using Threading = eventpp::MultipleThreading; };
using HQ = eventpp::HeterEventQueue<int, eventpp::HeterTuple<void (VArg), void (WArg)>, Pol>;
struct PredV { bool operator()(VArg) const; };
struct PredW { bool operator()(WArg) const; };
void use(HQ & q, VArg a, WArg w, PredV & pv, PredW & pw) {
	q.enqueue(1, a); q.enqueue(2, w);
	q.process(); q.processOne(); q.processIf(pv); q.processIf(pw);
	q.clearEvents(); q.emptyQueue(); q.wait(); q.waitFor(std::chrono::milliseconds(1));
	HQ q1; HQ q2(q); HQ q3(std::move(q2));      // default, copy and move construction
}
