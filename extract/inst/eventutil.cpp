// instantiation TU for unit "eventutil": the free helper templates over a CallbackList and an EventDispatcher whose
// callback type is a comparable function pointer (std::function has no operator==)
#include <eventpp/callbacklist.h>
#include <eventpp/eventdispatcher.h>
#include <eventpp/utilities/eventutil.h>
struct VArg { int id; };
using FnPtr = void (*)(VArg);
struct Pol { using Threading = eventpp::MultipleThreading; using Callback = FnPtr; };
using CLT = eventpp::CallbackList<void(VArg), Pol>;
using EDT = eventpp::EventDispatcher<int, void(VArg), Pol>;
void use(CLT & cl, EDT & ed, FnPtr f) {
	eventpp::removeListener(cl, f); eventpp::hasListener(cl, f); eventpp::hasAnyListener(cl);
	eventpp::removeListener(ed, 1, f); eventpp::hasListener(ed, 1, f); eventpp::hasAnyListener(ed, 1);
}
