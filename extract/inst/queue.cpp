// instantiation TU for unit "queue": int event key, one opaque by-value argument, multi-threaded policy,
// a user getEvent policy that takes its argument BY VALUE (so that moving the caller's argument into it is visible)
#include <eventpp/eventqueue.h>
struct VArg { int id; VArg(); VArg(const VArg &); VArg(VArg &&); VArg & operator=(const VArg &); VArg & operator=(VArg &&); ~VArg(); };
struct Pol {
	using Threading = eventpp::MultipleThreading;
	static int getEvent(VArg a);
	using ArgumentPassingMode = eventpp::ArgumentPassingIncludeEvent;
};
using Q = eventpp::EventQueue<int, void(VArg), Pol>;
template class eventpp::internal_::EventQueueBase<int, void(VArg), Pol>;
struct UserPred { bool operator()(VArg) const; };
struct UserPred0 { bool operator()() const; };
void use(Q & q, VArg a, UserPred & p, UserPred0 & p0, Q::QueuedEvent & qe) {
	q.enqueue(a); q.enqueue(VArg());
	q.processIf(p); q.processUntil(p); q.processIf(p0);
	q.dispatch(qe);
	q.waitFor(std::chrono::milliseconds(1));
	Q::DisableQueueNotify d(&q);
}
