// instantiation TU for unit "anyid": AnyId without value storage and with a comparable value storage
#include <eventpp/utilities/anyid.h>
struct Stor { int v; Stor(); template <typename T> Stor(const T &); };
bool operator==(const Stor & a, const Stor & b);
bool operator<(const Stor & a, const Stor & b);
using IdE = eventpp::AnyId<>;
using IdS = eventpp::AnyId<std::hash, Stor>;
bool use(const IdE & a, const IdE & b, const IdS & c, const IdS & d) {
	bool r = (a == b) || (a < b) || (c == d) || (c < d);
	return r || std::hash<IdE>()(a) == std::hash<IdS>()(c);
}
