// instantiation TU for unit "anyid": AnyId without value storage and with a comparable value storage
#include <eventpp/utilities/anyid.h>
struct Stor { int v; Stor(); template <typename T> Stor(const T &); };
bool operator==(const Stor & a, const Stor & b);
bool operator<(const Stor & a, const Stor & b);
// a Storage whose operator< does not return bool (still 'supports <')
struct StorI { int v; StorI(); template <typename T> StorI(const T &); };
bool operator==(const StorI & a, const StorI & b);
int operator<(const StorI & a, const StorI & b);
using IdI = eventpp::AnyId<std::hash, StorI>;
using IdE = eventpp::AnyId<>;
using IdS = eventpp::AnyId<std::hash, Stor>;
bool use(const IdE & a, const IdE & b, const IdS & c, const IdS & d, const IdI & e, const IdI & f) {
	bool r = (a == b) || (a < b) || (c == d) || (c < d) || (e == f) || (e < f) || std::hash<IdI>()(e) == 0;
	return r || std::hash<IdE>()(a) == std::hash<IdS>()(c);
}
