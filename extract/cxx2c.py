#!/usr/bin/env python3
"""cxx2c -- mechanical translation of instantiated eventpp member functions (clang JSON AST) into C.

The translator works on a *closed vocabulary*: every AST node kind, every cast kind and every
callee it meets must have a rule; anything else raises Unsupported (the driver turns that into
exit 2 = infrastructure error, never a VIOLATION).  The rules are listed in extract/rules.md.

Conventions of the emitted C
  * class C<...>            -> struct with the instantiated fields (+ GHOST_FIELDS_<C> macro slot)
  * method C::m(a...)       -> RET C_m(C *self, a...)
  * T& / T&& / const T&     -> T *   (uses are dereferenced)
  * std::shared_ptr<N>      -> N *   (garbage-collected view: an object lives while referenced)
  * std::weak_ptr<N>/Handle -> struct Handle { N *p; }       lock() -> weak_lock() (trusted stub)
  * std::lock_guard<M> g(m) -> MUTEX_LOCK(&m) ... MUTEX_UNLOCK(&m) at every exit of the scope
  * std::atomic<T>          -> T, every access through ATOMIC_* macros (sequentially consistent)
  * Callback_/std::function -> struct Callback (opaque identity), calls -> Callback_call stub
  * lambdas                 -> closure struct + C function
  * heap-walking loops listed in the unit config are additionally emitted *split*
"""
import json, re, sys, os

class Unsupported(Exception):
    pass

def load_docs(fn, prefix=''):
    s = open(fn).read(); dec = json.JSONDecoder(); i = 0; out = []
    if prefix:
        s = s.replace('"0x', '"' + prefix + '0x')   # AST node ids are only unique within one clang run
    n = len(s)
    while i < n:
        while i < n and s[i].isspace(): i += 1
        if i >= n: break
        o, j = dec.raw_decode(s, i); out.append(o); i = j
    return out

NS_STRIP = ['eventpp::internal_::', 'eventpp::']

def strip_ns(q):
    for p in NS_STRIP:
        q = q.replace(p, '')
    return q

def split_top(s, sep=','):
    out = []; d = 0; cur = ''
    for ch in s:
        if ch in '<(': d += 1
        elif ch in '>)': d -= 1
        if ch == sep and d == 0:
            out.append(cur.strip()); cur = ''
        else:
            cur += ch
    if cur.strip(): out.append(cur.strip())
    return out

class CType:
    def __init__(self, cls, c, ref=False, const=False, raw='', elem=None, rref=False):
        self.cls = cls; self.c = c; self.ref = ref; self.const = const; self.raw = raw; self.elem = elem; self.rref = rref
    def decl(self, name):
        return f'{self.c} *{name}' if self.ref else f'{self.c} {name}'
    def __repr__(self): return f'<{self.cls}:{self.c}{"&" if self.ref else ""}>'

BUILTINS = {
    'bool': '_Bool', 'int': 'int', 'unsigned int': 'unsigned int', 'unsigned long': 'unsigned long',
    'long': 'long', 'char': 'char', 'unsigned char': 'unsigned char', 'size_t': 'unsigned long',
    'std::size_t': 'unsigned long', 'unsigned long long': 'unsigned long long', 'long long': 'long long',
    'short': 'short', 'unsigned short': 'unsigned short', 'signed char': 'signed char',
    'std::__atomic_base<unsigned int>::__int_type': 'unsigned int', 'std::__atomic_base<int>::__int_type': 'int',
}

CLEANUP_KINDS = ('ExprWithCleanups', 'MaterializeTemporaryExpr', 'CXXBindTemporaryExpr', 'ParenExpr', 'ConstantExpr',
                 'SubstNonTypeTemplateParmExpr')
TRANSPARENT_CASTS = ('NoOp', 'LValueToRValue', 'FunctionToPointerDecay', 'UserDefinedConversion', 'ConstructorConversion')


class Ctx:
    """per-function emission context"""
    def __init__(self, tr, cname, self_expr='self'):
        self.tr = tr; self.cname = cname; self.self_expr = self_expr
        self.vars = {}        # decl id -> (cexpr, CType)   cexpr is a C lvalue
        self.scopes = []      # list of lists of cleanup strings
        self.loop_depth_scopes = []  # index into scopes at loop entry
        self.lines = []
        self.ind = 1
        self.tmpn = 0
        self.loopn = 0
        self.ret = None       # CType
        self.pre = []
        self.names = set()
        self.split_mode = None   # dict for split loop body emission
        self.try_stack = []      # (label of the handler, scope depth at the try) for unwinding edges inside try blocks
        self.unwind_actions = [] # run on unwinding edges only, after the scopes (a delegating constructor's object is destroyed)
        self.in_handler = 0
    def emit(self, s):
        self.lines.append('  ' * self.ind + s)
    def tmp(self, base='t'):
        self.tmpn += 1
        return f'__{base}{self.tmpn}'
    def uniq(self, name):
        n = name; k = 1
        while n in self.names:
            k += 1; n = f'{name}_{k}'
        self.names.add(n)
        return n


class IdMap(dict):
    """declaration by node id; ids carry a per-dump prefix 'D<n>:'.  With stable ids (ASLR off, verified by the driver) a
    declaration that is only referenced in one dump is found in another dump under the same raw id."""
    stable = False
    def __init__(self):
        super().__init__(); self.raw = {}
    def __setitem__(self, k, v):
        super().__setitem__(k, v)
        r = k.split(':', 1)[-1]
        cur = self.raw.get(r)
        if cur is None or len(v.get('inner', [])) > len(cur.get('inner', [])): self.raw[r] = v
    def get(self, k, default=None):
        v = super().get(k)
        if not self.stable or not isinstance(k, str): return v if v is not None else default
        w = self.raw.get(k.split(':', 1)[-1])
        if w is not None and (v is None or len(w.get('inner', [])) > len(v.get('inner', []))): return w
        return v if v is not None else default

class Translator:
    def __init__(self, docs, cfg):
        self.docs = docs
        self.cfg = cfg
        self.byid = IdMap()
        self.byid.stable = cfg.get('stable_ids', False)
        for d in docs:
            self._index(d)
        self.records = {}
        self.aliases = {}
        self.cnames = dict(cfg.get('names', {}))
        self.struct_order = []
        self.struct_text = {}
        self.funcs = []            # (cname, proto, text, srcinfo)
        self.externs = {}          # cname -> proto
        self.funcnames = {}        # decl id -> cname
        self.owner_of = {}         # method decl id -> (qname, cname) of the record
        self.lambdas = {}          # lambda record id -> dict
        self.lambda_by_type = {}
        self.queue = []
        self.done = set()
        self.split = cfg.get('split_loops', {})
        self.loop_keys = []
        self.mode = cfg.get('mode', 'seq')
        self.notes = []
        self.lambda_counter = {}
        self.make_shared_emitted = set()
        self.local_macros = {}
        self.fn_src = {}

    # ------------------------------------------------------------------ indexing
    def _index(self, n):
        if isinstance(n, dict):
            i = n.get('id')
            if i and n.get('kind', '').endswith('Decl'):
                if i not in self.byid or len(n.get('inner', [])) > len(self.byid[i].get('inner', [])):
                    self.byid[i] = n
            for c in n.get('inner', []):
                self._index(c)

    # ------------------------------------------------------------------ types
    def qt(self, n):
        t = n.get('type', {})
        return t.get('desugaredQualType') or t.get('qualType') or ''

    def canon(self, q):
        q = strip_ns(q).strip()
        for a, b in self.cfg.get('type_subst', []):
            q = q.replace(a, b)
        for a, b in self.cfg.get('type_resubst', []):
            q = re.sub(a, b, q)
        ref = False; const = False; rref = False
        while True:
            q0 = q
            if q.endswith('&&'): q = q[:-2].strip(); ref = True; rref = True
            elif q.endswith('&'): q = q[:-1].strip(); ref = True
            if q.startswith('const '): q = q[6:].strip(); const = True
            if q.endswith(' const'): q = q[:-6].strip(); const = True
            if q.endswith('*const'): q = q[:-5].strip()
            for p in ('typename ', 'struct ', 'class ', 'volatile '):
                if q.startswith(p): q = q[len(p):].strip()
            if q in self.aliases and self.aliases[q] != q:
                q = self.aliases[q]
            if q == q0: break
        return q, ref, const, rref

    def ctype(self, q):
        raw = q
        q, ref, const, rref = self.canon(q)
        t = self._ctype(q, raw)
        t.ref = ref; t.const = const; t.rref = rref
        return t

    def _ctype(self, q, raw):
        if q.endswith('*'):
            e = self.ctype(q[:-1].strip())
            return CType('ptr', e.c + ' *', raw=raw, elem=e)
        for rule in self.cfg.get('type_rules', []):
            pat, cls, c = rule[0], rule[1], rule[2]
            if len(rule) > 3 and not (getattr(self, 'cur_cname', '') or '').startswith(rule[3]):
                continue
            if re.search(pat, q):
                return CType(cls, c, raw=raw)
        if q in BUILTINS: return CType('builtin', BUILTINS[q], raw=raw)
        if q == 'void': return CType('void', 'void', raw=raw)
        if q in self.cnames or q in self.records:
            return CType('record', self.cname_of_record(q), raw=raw)
        m = re.match(r'^(?:std::)?(?:__)?shared_ptr(?:_access)?<(.*)>::element_type$', q)
        if m:
            return self._ctype(self.canon(split_top(m.group(1))[0])[0], raw)
        m = re.match(r'^(?:std::)?(?:__)?shared_ptr(?:_access)?<(.*)>$', q)
        if m:
            e = self.ctype(split_top(m.group(1))[0])
            return CType('sp', e.c + ' *', raw=raw, elem=e)
        m = re.match(r'^(?:std::)?(?:__)?weak_ptr<(.*)>$', q)
        if m or q.endswith('::Handle_') or q.endswith('::Handle'):
            return CType('wp', self.cfg.get('handle_c', 'Handle'), raw=raw)
        if re.match(r'^std::lock_guard<', q): return CType('lock_guard', 'void', raw=raw)
        if re.match(r'^std::unique_lock<', q): return CType('unique_lock', 'UniqueLock', raw=raw)
        if q in ('std::mutex', 'SpinLock', 'SingleThreading::Mutex') or q.endswith('::Mutex'):
            return CType('mutex', 'Mutex', raw=raw)
        m = re.match(r'^(?:std::atomic|std::__atomic_base|SingleThreading::Atomic)<(.*)>$', q)
        if m:
            e = self.ctype(m.group(1))
            return CType('atomic', e.c, raw=raw, elem=e)
        if re.match(r'^std::function<', q) or q.endswith('::Callback_') or q.endswith('::Callback'):
            return CType('function', 'Callback', raw=raw)
        if q.startswith('(lambda at '):
            return CType('lambda', self.lambda_cname_by_type(q), raw=raw)
        if q.endswith('*'):
            e = self.ctype(q[:-1].strip())
            return CType('ptr', e.c + ' *', raw=raw, elem=e)
        if q == 'std::memory_order': return CType('enum', 'int', raw=raw)
        if q == 'std::nullptr_t' or q == 'nullptr_t': return CType('nullptr', 'void *', raw=raw)
        raise Unsupported(f'no type rule for "{q}" (from "{raw}")')

    def cname_of_record(self, q):
        if q in self.cnames: return self.cnames[q]
        c = q
        while '<' in c:
            c2 = re.sub(r'<[^<>]*>', '', c)
            if c2 == c: break
            c = c2
        c = re.sub(r'[^A-Za-z0-9_]+', '_', c).strip('_')
        self.cnames[q] = c
        return c

    def lambda_cname_by_type(self, q):
        q = re.sub(r'\)\s*(const)?\s*&*\s*$', ')', q.strip())
        if q.startswith('const '): q = q[6:]
        if q in self.lambda_by_type: return self.lambda_by_type[q]
        # a lambda that has not been translated yet (e.g. named as a template argument): position-independent name =
        # its ordinal among the lambdas of its file (line numbers would change with every edit above it)
        if not hasattr(self, '_lam_ord'):
            allq = set()
            def walk(n):
                if isinstance(n, dict):
                    if n.get('kind') == 'LambdaExpr':
                        allq.add(strip_ns(n.get('type', {}).get('qualType', '')))
                    for c in n.get('inner', []): walk(c)
            for d in self.docs: walk(d)
            def pos(t):
                m = re.search(r'([^/ ]+):(\d+):(\d+)\)$', t)
                return (m.group(1), int(m.group(2)), int(m.group(3))) if m else (t, 0, 0)
            self._lam_ord = {}
            byfile = {}
            for t in sorted(allq, key=pos): byfile.setdefault(pos(t)[0], []).append(t)
            for f, ts in byfile.items():
                for k, t in enumerate(ts): self._lam_ord[t] = 'UserFn_' + re.sub(r'[^A-Za-z0-9]+', '_', f).strip('_') + '_%d' % k
        if q in self._lam_ord: return self._lam_ord[q]
        key = re.sub(r'[^A-Za-z0-9]+', '_', q.split('/')[-1]).strip('_')
        return 'UserFn_' + key

    # ------------------------------------------------------------------ records
    def register_record(self, decl, qname):
        self.records[qname] = decl
        for c in decl.get('inner', []):
            k = c.get('kind')
            if k in ('TypeAliasDecl', 'TypedefDecl') and c.get('name'):
                ty = c.get('type', {})
                self.aliases[qname + '::' + c['name']] = strip_ns(ty.get('desugaredQualType') or ty.get('qualType'))
                for alt in self.cfg.get('alt_names', {}).get(qname, []):
                    self.aliases[alt + '::' + c['name']] = self.aliases[qname + '::' + c['name']]
            if k == 'CXXRecordDecl' and c.get('completeDefinition') and not c.get('isImplicit') and c.get('name') and c['name'] not in self.cfg.get('skip_records', []):
                self.register_record(c, qname + '::' + c['name'])
            if k in ('CXXMethodDecl', 'CXXConstructorDecl', 'CXXDestructorDecl'):
                self.owner_of[c['id']] = qname
            if k == 'FunctionTemplateDecl':
                for x in c.get('inner', []):
                    if x.get('kind') in ('CXXMethodDecl', 'CXXConstructorDecl'):
                        self.owner_of[x['id']] = qname
            if k == 'ClassTemplateDecl' and c.get('name'):
                for x in c.get('inner', []):
                    if x.get('kind') == 'ClassTemplateSpecializationDecl' and x.get('completeDefinition'):
                        targs = [strip_ns(a.get('type', {}).get('qualType', '')) for a in x.get('inner', []) if a.get('kind') == 'TemplateArgument']
                        self.register_record(x, qname + '::' + c['name'] + '<' + ', '.join(targs) + '>')

    def emit_struct(self, qname):
        if qname not in self.records:
            return      # opaque record: its C definition comes from the unit's ghost_fields.h
        decl = self.records[qname]
        cn = self.cname_of_record(qname)
        if cn in self.struct_text: return
        fields = []
        for b in decl.get('bases', []):
            bq = b['type'].get('desugaredQualType') or b['type']['qualType']
            try:
                bt = self.ctype(bq)
            except Unsupported:
                self.notes.append(f'base class {bq} of {qname} dropped (no type rule; must be an empty tag)')
                continue
            if bt.cls == 'record':
                self.emit_struct(self.canon(bq)[0])
                fields.append(f'  {bt.c} base_{bt.c};')
            elif bt.cls in ('wp', 'list'):
                fields.append(f'  {bt.c} base;')
        for c in decl.get('inner', []):
            if c.get('kind') == 'FieldDecl':
                t = self.ctype(self.qt(c))
                if t.cls == 'record':
                    self.emit_struct(self.canon(self.qt(c))[0])
                fields.append('  ' + t.decl(c['name']) + ';')
        body = '\n'.join(fields)
        self.struct_order.append(cn)
        self.struct_text[cn] = f'struct {cn} {{\n{body}\n  GHOST_FIELDS_{cn}\n}};'

    # ------------------------------------------------------------------ function naming
    def params_of(self, decl):
        return [p for p in decl.get('inner', []) if p.get('kind') == 'ParmVarDecl']

    def func_cname(self, decl):
        i = decl['id']
        if i in self.funcnames: return self.funcnames[i]
        if decl.get('kind') == 'FunctionDecl' and i not in self.owner_of:
            # the same free-function instantiation can appear in several AST dumps (different ids): one C function
            sig = ('sig', decl.get('name'), decl.get('type', {}).get('qualType'), tuple(a.get('type', {}).get('qualType', '') for a in decl.get('inner', []) if a.get('kind') == 'TemplateArgument'))
            if sig in self.funcnames:
                self.funcnames[i] = self.funcnames[sig]; self.done.add(i); return self.funcnames[i]
            self._pending_sig = sig
        else:
            self._pending_sig = None
        name = decl.get('name', '')
        k = decl['kind']
        oq = self.owner_of.get(i)
        owner_c = self.cname_of_record(oq) if oq else ''
        ps = self.params_of(decl)
        opmap = {'operator()': 'call', 'operator bool': 'to_bool', 'operator==': 'eq', 'operator!=': 'ne', 'operator<': 'lt'}
        if k == 'CXXConstructorDecl':
            if not ps: base = 'ctor'
            elif len(ps) == 1 and (self.canon(self.qt(ps[0]))[0] == oq or self.canon(self.qt(ps[0]))[0] in self.cfg.get('alt_names', {}).get(oq, [])):
                base = 'ctor_move' if self.qt(ps[0]).strip().endswith('&&') else 'ctor_copy'
            else: base = 'ctor' + str(len(ps))
        elif k == 'CXXDestructorDecl': base = 'dtor'
        elif name == 'operator=':
            base = 'assign_move' if ps and self.qt(ps[0]).strip().endswith('&&') else 'assign_copy'
        elif name in opmap: base = opmap[name]
        elif name.startswith('operator '): base = 'to_' + re.sub(r'\W+', '_', name[9:]).strip('_')
        else: base = name
        cn = f'{owner_c}_{base}' if owner_c else base
        # template instantiation on a lambda / functor: suffix with the functor's C name
        targs = [c for c in decl.get('inner', []) if c.get('kind') == 'TemplateArgument']
        suf = []
        for ta in targs:
            tq = ta.get('type', {}).get('qualType', '')
            if tq.startswith('(lambda at '):
                suf.append(self.lambda_cname_by_type(strip_ns(tq)).replace(owner_c + '_', ''))
            elif tq:
                try:
                    suf.append(re.sub(r'\W+', '', self.ctype(tq).c))
                except Unsupported:
                    suf.append(re.sub(r'\W+', '_', tq).strip('_'))
        if suf: cn += '__' + '_'.join(suf)
        used = set(self.funcnames.values())
        if cn in used:
            n = 2
            while f'{cn}_{n}' in used: n += 1
            cn = f'{cn}_{n}'
        for pat, rep in self.cfg.get('fn_rename', []):
            cn2 = re.sub(pat, rep, cn)
            if cn2 != cn and cn2 not in used: cn = cn2; break
            if cn2 != cn and self.cfg.get('rename_numbered'):
                # two instantiations that a rule maps to the same short name (e.g. T = X & and T = X): the later one is numbered
                k = 2; c3 = cn2
                while c3 in used: c3 = f'{cn2}_{k}'; k += 1
                cn = c3; break
        self.funcnames[i] = cn
        if getattr(self, '_pending_sig', None): self.funcnames[self._pending_sig] = cn; self._pending_sig = None
        return cn

    def has_body(self, decl):
        return any(c.get('kind') == 'CompoundStmt' for c in decl.get('inner', []))

    # ------------------------------------------------------------------ AST helpers
    def skip(self, n):
        while True:
            k = n.get('kind')
            if k in CLEANUP_KINDS:
                n = n['inner'][0]; continue
            if k == 'ImplicitCastExpr' and n.get('castKind') in TRANSPARENT_CASTS:
                n = n['inner'][0]; continue
            if k == 'CXXFunctionalCastExpr' and n.get('castKind') in ('ConstructorConversion', 'NoOp'):
                n = n['inner'][0]; continue
            return n

    def callee_name(self, n):
        c = self.skip(n)
        if c.get('kind') == 'DeclRefExpr':
            return c['referencedDecl'].get('name'), c['referencedDecl']
        if c.get('kind') == 'UnresolvedLookupExpr':
            return c.get('name'), None
        return None, None

    def is_move_call(self, n):
        """n (after peeling) is std::move(x) / std::forward<T>(x) -> returns x node, else None"""
        c = self.skip(n)
        while c.get('kind') == 'ImplicitCastExpr' and c.get('castKind') in ('DerivedToBase', 'UncheckedDerivedToBase'):
            c = self.skip(c['inner'][0])
        if c.get('kind') == 'CallExpr':
            nm, _ = self.callee_name(c['inner'][0])
            if nm in ('move', 'forward') and len(c['inner']) == 2 and c.get('valueCategory') == 'xvalue':
                return c['inner'][1]
        return None

    # ------------------------------------------------------------------ expressions
    def E(self, n, cx):
        k = n.get('kind')
        h = getattr(self, 'E_' + k, None)
        if h is None:
            raise Unsupported(f'expression kind {k} in {cx.cname}')
        return h(n, cx)

    def E_ExprWithCleanups(self, n, cx): return self.E(n['inner'][0], cx)
    E_MaterializeTemporaryExpr = E_ExprWithCleanups
    E_CXXBindTemporaryExpr = E_ExprWithCleanups
    E_ConstantExpr = E_ExprWithCleanups
    E_SubstNonTypeTemplateParmExpr = E_ExprWithCleanups
    def E_ParenExpr(self, n, cx): return '(' + self.E(n['inner'][0], cx) + ')'

    def E_ImplicitCastExpr(self, n, cx):
        ck = n.get('castKind'); sub = n['inner'][0]
        if ck == 'LValueToRValue' and self.cfg.get('read_hooks'):
            m = sub
            while m.get('kind') == 'ParenExpr': m = m['inner'][0]
            if m.get('kind') == 'MemberExpr':
                try:
                    bt = self.ctype(self.qt(m['inner'][0]))
                    rec = bt.elem.c if bt.cls == 'ptr' and bt.elem else bt.c
                except Unsupported:
                    rec = None
                hook = self.cfg['read_hooks'].get(f'{rec}.{m.get("name")}')
                if hook:
                    # a READ of a shared field (rvalue use): goes through the spec's hook (default: the plain read)
                    return f'{hook}({self.addr_of(m, cx)})'
        if ck in TRANSPARENT_CASTS:
            return self.E(sub, cx)
        if ck in ('UncheckedDerivedToBase', 'DerivedToBase'):
            src = self.ctype(self.qt(sub)); dst = self.ctype(self.qt(n))
            e = self.E(sub, cx)
            if src.cls == dst.cls and src.cls in ('sp', 'wp', 'atomic', 'mutex', 'function', 'mapit', 'listit', 'vecit'):
                return e
            if src.cls == 'ptr' and dst.cls == 'ptr':
                # pointer to derived -> pointer to base
                se, de = src.elem, dst.elem
                if se.c == de.c: return e
                if se.cls == de.cls and se.cls in ('sp', 'wp', 'atomic', 'mutex', 'function'): return e
                if se.cls == 'record' and de.cls == 'record': return f'(&({e})->base_{de.c})'
                if se.cls == 'record' and de.cls in ('wp', 'list'): return f'(&({e})->base)'
            if src.cls == 'record' and dst.cls == 'record':
                if src.c == dst.c: return e
                return f'({e}).base_{dst.c}'
            if src.cls == 'record' and dst.cls in ('wp', 'list'):
                return f'({e}).base'
            raise Unsupported(f'derived-to-base cast {src} -> {dst} in {cx.cname}')
        if ck in ('IntegralCast', 'IntegralToBoolean', 'BooleanToSignedIntegral'):
            t = self.ctype(self.qt(n))
            return f'(({t.c})({self.E(sub, cx)}))'
        if ck == 'BitCast':
            t = self.ctype(self.qt(n))
            return f'(({t.c})({self.E(sub, cx)}))'
        if ck == 'NullToPointer':
            return 'NULL'
        if ck == 'PointerToBoolean':
            return f'(({self.E(sub, cx)}) != NULL)'
        raise Unsupported(f'cast kind {ck} in {cx.cname}')

    def E_CXXFunctionalCastExpr(self, n, cx):
        ck = n.get('castKind')
        if ck == 'ToVoid': return '((void)0)'

        if ck in ('ConstructorConversion', 'NoOp'): return self.E(n['inner'][0], cx)
        if ck in ('IntegralCast',):
            t = self.ctype(self.qt(n)); return f'(({t.c})({self.E(n["inner"][0], cx)}))'
        raise Unsupported(f'functional cast {ck} in {cx.cname}')
    def E_CXXStaticCastExpr(self, n, cx):
        ck = n.get('castKind')
        if ck in ('NoOp', 'LValueToRValue'): return self.E(n['inner'][0], cx)
        if ck in ('IntegralCast',):
            t = self.ctype(self.qt(n)); return f'(({t.c})({self.E(n["inner"][0], cx)}))'
        if ck == 'BitCast':
            t = self.ctype(self.qt(n)); return f'(({t.c})({self.E(n["inner"][0], cx)}))'
        if ck == 'BaseToDerived':
            # pointer to a base subobject -> pointer to the enclosing derived object (CRTP-style mixin access)
            sub = n['inner'][0]; src = self.ctype(self.qt(self.skip(sub))); dst = self.ctype(self.qt(n))
            if src.cls == 'ptr' and dst.cls == 'ptr' and src.elem.cls == 'record' and dst.elem.cls == 'record':
                return f'BASE_TO_DERIVED({dst.elem.c}, base_{src.elem.c}, {self.E(sub, cx)})'
            if src.cls == 'record' and dst.cls == 'record':      # reference to base -> reference to derived
                return f'(*BASE_TO_DERIVED({dst.c}, base_{src.c}, {self.addr_of(sub, cx)}))'
        raise Unsupported(f'static_cast {ck} in {cx.cname}')
    E_CStyleCastExpr = E_CXXStaticCastExpr

    def E_InitListExpr(self, n, cx):
        t = self.ctype(self.qt(n))
        if t.cls != 'record' or t.c not in self.cfg.get('value_records', []):
            raise Unsupported(f'initializer list for {t} in {cx.cname}')
        q = self.record_q(t)
        fields = [c for c in self.records[q].get('inner', []) if c.get('kind') == 'FieldDecl']
        items = n.get('inner', [])
        if len(items) != len(fields): raise Unsupported(f'initializer list arity for {t} in {cx.cname}')
        # braced-init-list: elements are evaluated strictly left to right (sequenced): emitted as ordered temporaries
        parts = []
        for f, x in zip(fields, items):
            ft = self.ctype(self.qt(f))
            tmp = cx.tmp('init')
            if ft.ref:
                cx.pre.append(f'{ft.c} *{tmp} = {self.addr_of(x, cx)};')
            else:
                cx.pre.append(f'{ft.c} {tmp} = {self.E(x, cx)};')
            parts.append(f'.{f["name"]} = {tmp}')
        return f'({t.c}){{{", ".join(parts)}}}'

    def E_CXXTemporaryObjectExpr(self, n, cx): return self.E_CXXConstructExpr(n, cx)
    def E_CXXScalarValueInitExpr(self, n, cx): return '0'

    def E_CXXReinterpretCastExpr(self, n, cx):
        t = self.ctype(self.qt(n))
        return f'(({t.c})({self.E(n["inner"][0], cx)}))'

    def E_CXXNewExpr(self, n, cx):
        kids = n.get('inner', [])
        ctor = [k for k in kids if self.skip(k).get('kind') in ('CXXConstructExpr',)]
        place = [k for k in kids if k not in ctor]
        if not n.get('isPlacement'):
            # new T(args): allocation + construction (value records: the constructed value is stored)
            if len(ctor) != 1 or place: raise Unsupported(f'new expression shape in {cx.cname}')
            t = self.ctype(self.qt(self.skip(ctor[0])))
            if t.cls != 'record' or t.c not in self.cfg.get('value_records', []): raise Unsupported(f'new of {t} in {cx.cname}')
            return f'NEW_OBJ({t.c}, {self.E(ctor[0], cx)})'
        if len(ctor) != 1 or len(place) != 1: raise Unsupported(f'placement new shape in {cx.cname}')
        cs = self.skip(ctor[0])
        t = self.ctype(self.qt(cs))
        if t.cls == 'record' and t.c not in self.cfg.get('value_records', []):
            # placement new of a record of this unit: its extracted constructor runs on the storage
            c = self.find_ctor(t, cs); self.enqueue(c)
            a = [f'(({t.c} *)({self.E(place[0], cx)}))'] + self.pass_ctor_args(c, cs, cs.get('inner', []), cx) + self.ghost_args()
            return f'{self.func_cname(c)}({", ".join(a)})'
        return f'PLACEMENT_NEW({t.c}, {self.E(place[0], cx)}, {self.E(ctor[0], cx)})'

    def E_CXXDeleteExpr(self, n, cx):
        sub = n['inner'][0]
        t = self.ctype(self.qt(self.skip(sub)))
        if t.cls != 'ptr' or t.elem.cls != 'record': raise Unsupported(f'delete of {t} in {cx.cname}')
        return f'DELETE_OBJ({t.elem.c}, {self.E(sub, cx)})'

    def E_ImplicitValueInitExpr(self, n, cx):
        t = self.ctype(self.qt(n))
        if t.cls in ('ptr', 'fnptr', 'sp'): return 'NULL'
        if t.cls in ('builtin', 'enum'): return '0'
        raise Unsupported(f'value-initialisation of {t} in {cx.cname}')

    def E_CXXBoolLiteralExpr(self, n, cx): return '1' if n['value'] else '0'
    def E_IntegerLiteral(self, n, cx):
        t = self.ctype(self.qt(n)).c
        v = str(n['value'])
        if 'unsigned' in t: v += 'u'
        if 'long' in t: v += 'l'
        return v
    def E_CXXNullPtrLiteralExpr(self, n, cx): return 'NULL'
    def E_CXXThisExpr(self, n, cx): return cx.self_expr

    def enum_by_owner(self, r):
        """enumerator of an unnamed enum inside a (trait) class template specialisation that lives in another AST dump:
        found by the owner's name, which the enumerator's type spells out"""
        m = re.match(r'^(.*)::\((unnamed|anonymous) enum at ', strip_ns(r.get('type', {}).get('qualType', '')))
        if not m: return None
        g1 = m.group(1)
        if '<' not in g1: owner = g1.split('::')[-1]
        else:
            cut = g1.rfind('::', 0, g1.index('<'))
            owner = g1[cut + 2:] if cut >= 0 else g1
        if not hasattr(self, '_enum_idx'):
            self._enum_idx = {}
            def walk(n, owner):
                if not isinstance(n, dict): return
                k = n.get('kind')
                if k == 'ClassTemplateSpecializationDecl':
                    targs = []
                    def ta(a):
                        inner = [x for x in a.get('inner', []) if x.get('kind') == 'TemplateArgument']
                        if inner and not a.get('type') and 'value' not in a:
                            for x in inner: ta(x)          # a parameter pack: its elements
                        else:
                            targs.append(strip_ns(a.get('type', {}).get('qualType', '')) or (str(a['value']) if 'value' in a else ''))
                    for a in n.get('inner', []):
                        if a.get('kind') == 'TemplateArgument': ta(a)
                    owner = n.get('name', '') + '<' + ', '.join(targs) + '>'
                elif k == 'CXXRecordDecl' and n.get('name') and n.get('completeDefinition'):
                    owner = n['name']
                if k == 'EnumConstantDecl' and owner:
                    for c in n.get('inner', []):
                        v = self.const_value(c)
                        if v is not None: self._enum_idx.setdefault((owner, n.get('name')), v)
                for c in n.get('inner', []): walk(c, owner)
            for d in self.docs: walk(d, None)
        v = self._enum_idx.get((owner, r.get('name')))
        if v is None and '<' in owner:
            # template-template arguments carry no type in the dump: compare without them
            base = owner[:owner.index('<')]
            want = [x for x in split_top(owner[owner.index('<') + 1:owner.rindex('>')])]
            for (o, nm), val in self._enum_idx.items():
                if nm != r.get('name') or not o.startswith(base + '<'): continue
                got = [x for x in split_top(o[o.index('<') + 1:o.rindex('>')])]
                if len(got) >= len(want) and all(g == w or g == '' for g, w in zip(got, want)) and all(g == 'void' for g in got[len(want):]): return val
        return v

    def E_DeclRefExpr(self, n, cx):
        r = n['referencedDecl']; rk = r['kind']
        if rk in ('ParmVarDecl', 'VarDecl'):
            if r['id'] in cx.vars:
                return cx.vars[r['id']][0]
            raise Unsupported(f'reference to unknown variable {r.get("name")} in {cx.cname}')
        if rk == 'EnumConstantDecl':
            # only a declaration of the SAME dump is trusted by id: an enumerator of another instantiation of the trait class
            # has the same name and type, so an id that resolves into another dump cannot be validated (it once yielded
            # index -1 for index 1 after an unrelated source edit had shifted clang's heap); other dumps go by owner
            d = dict.get(self.byid, r['id'])
            if d is not None:
                for c in d.get('inner', []):
                    v = self.const_value(c)
                    if v is not None: return f'{v} /* {r["name"]} */'
            if r['name'].startswith('memory_order'): return '0 /* %s */' % r['name']
            v = self.enum_by_owner(r)
            if v is not None: return f'{v} /* {r["name"]} of a trait class, folded by clang */'
            raise Unsupported(f'enum constant {r["name"]} without value in {cx.cname}')
        raise Unsupported(f'DeclRefExpr to {rk} {r.get("name")} in {cx.cname}')

    def const_value(self, n):
        if 'value' in n and n.get('kind') in ('ConstantExpr', 'IntegerLiteral', 'CXXBoolLiteralExpr'):
            v = n['value']
            if v in (True, 'true'): return '1'
            if v in (False, 'false'): return '0'
            return v
        for c in n.get('inner', []):
            v = self.const_value(c)
            if v is not None: return v
        return None

    def E_MemberExpr(self, n, cx):
        base = n['inner'][0]
        d = self.byid.get(n.get('referencedMemberDecl'))
        if d is not None and d.get('kind') != 'FieldDecl':
            raise Unsupported(f'member expression on non-field {n.get("name")} in {cx.cname}')
        b = self.E(base, cx)
        name = n['name']
        bt = self.ctype(self.qt(base))
        ft = self.ctype(self.qt(n))
        if n.get('isArrow'):
            e = f'{b}->{name}'
        else:
            e = f'{b}.{name}' if re.match(r'^[\w\.\->\(\)\*]+$', b) else f'({b}).{name}'
        # reference-typed fields are pointers in C
        fd = d
        if fd is not None and self.ctype(self.qt(fd)).ref:
            e = f'(*{e})'
        return e

    def E_UnaryOperator(self, n, cx):
        op = n['opcode']
        if op == '&':
            s0 = self.skip(n['inner'][0])
            if s0.get('kind') == 'DeclRefExpr' and s0['referencedDecl'].get('kind') == 'CXXMethodDecl':
                # address of a static member function (template instantiation) of this unit: a tag naming the C function
                d = self.byid.get(s0['referencedDecl']['id'])
                if d is not None and self.has_body(d):
                    self.enqueue(d)
                    return f'FN_PTR({self.func_cname(d)})'
            if s0.get('kind') == 'DeclRefExpr' and s0['referencedDecl'].get('kind') == 'FunctionDecl':
                # address of a function template instantiation used as a type tag (commonDtor<T>)
                ty = s0['referencedDecl'].get('type', {}).get('qualType', '')
                targ = None
                d = self.byid.get(s0['referencedDecl']['id'])
                tas = [a.get('type', {}).get('qualType') for a in (d or {}).get('inner', []) if a.get('kind') == 'TemplateArgument'] if d else []
                if tas:
                    try: targ = self.ctype(tas[0]).c
                    except Unsupported: targ = None
                if targ is None and getattr(cx, 'targs', None):
                    # `&f<T>` inside a template instantiated on T: the tag type is the enclosing instantiation's argument
                    try: targ = self.ctype(cx.targs[0]).c
                    except Unsupported: targ = None
                if targ is None:
                    ft = self.ctype(self.qt(n))
                    targ = self.cfg.get('fn_tag_default', 'T')
                return f'FN_TAG({s0["referencedDecl"]["name"]}, {targ})'
        s = self.E(n['inner'][0], cx)
        if n.get('isPostfix'): return f'({s}{op})'
        if op == '&': return f'(&{s})'
        return f'({op}{s})'

    def E_BinaryOperator(self, n, cx):
        if n.get('opcode') == '=':
            l = self.skip(n['inner'][0])
            if l.get('kind') == 'MemberExpr':
                base = l['inner'][0]; bt = self.ctype(self.qt(base))
                rec = bt.elem.c if bt.cls == 'ptr' and bt.elem else bt.c
                hook = self.cfg.get('field_hooks', {}).get(rec + '.' + l['name'])
                if hook:
                    bp = self.E(base, cx) if l.get('isArrow') else self.addr_of(base, cx)
                    return f'{hook}({bp}, {self.E(n["inner"][1], cx)})'
        a = self.E(n['inner'][0], cx); b = self.E(n['inner'][1], cx)
        return f'({a} {n["opcode"]} {b})'
    E_CompoundAssignOperator = E_BinaryOperator

    def E_ConditionalOperator(self, n, cx):
        fb = self.skip(n['inner'][2])
        if fb.get('kind') == 'CallExpr' and self.callee_name(fb['inner'][0])[0] == '__assert_fail':
            # assert(e): an obligation independent of NDEBUG
            return f'SRC_ASSERT({self.E(n["inner"][0], cx)})'
        c, a, b = [self.E(x, cx) for x in n['inner']]
        return f'({c} ? {a} : {b})'

    # ---- argument passing
    def addr_of(self, n, cx, t=None):
        """C expression for a pointer to the object denoted by n (binding a C++ reference)"""
        mv = self.is_move_call(n)
        s = self.skip(n)
        if mv is not None:
            if s.get('kind') == 'ImplicitCastExpr' and s.get('castKind') in ('DerivedToBase', 'UncheckedDerivedToBase'):
                return f'&{self.E(n, cx)}'      # base subobject of the moved-from object
            return self.addr_of(mv, cx)
        vc = s.get('valueCategory')
        e = self.E(n, cx)
        ty = self.ctype(self.qt(s))
        if vc == 'lvalue' or (vc == 'xvalue' and s.get('kind') in ('DeclRefExpr', 'MemberExpr')):
            if e.startswith('(*') and e.endswith(')') and re.match(r'^\(\*[\w\->\.]+\)$', e):
                return e[2:-1]
            return f'&{e}'
        # temporary: materialise as a compound literal (an lvalue in C)
        if e.startswith(f'({ty.c}){{'): return '&' + e
        if ty.cls in ('record', 'wp', 'function', 'lambda'):
            t = cx.tmp()
            cx.pre.append(f'{ty.c} {t} = {e};')
            return f'&{t}'
        return f'&({ty.c}){{{e}}}'

    def pass_args(self, params, args, cx):
        out = []; slices = []
        for p, a in zip(params, args):
            pt = self.ctype(self.qt(p))
            if pt.cls == 'empty': continue
            if a.get('kind') == 'CXXDefaultArgExpr':
                raise Unsupported(f'default argument in call from {cx.cname}')
            k0 = len(cx.pre)
            if pt.ref:
                out.append(self.addr_of(a, cx))
            else:
                out.append(self.hoist_throwing(self.value_of(a, cx, pt), pt, cx))
            slices.append((k0, len(cx.pre)))
        if len(args) > len(params):
            raise Unsupported(f'variadic call from {cx.cname}')
        self._arg_slices = slices      # statements hoisted by each argument (consumed at once by unsequenced_args)
        return out

    def pass_ctor_args(self, ctor, node, args, cx):
        """arguments of a constructor call: T(a, b) leaves their evaluation order unspecified exactly like a function
        call; T{a, b} (clang: "list": true) evaluates them left to right"""
        params = self.params_of(ctor)
        a = self.pass_args(params, args, cx)
        if node is not None and node.get('list'):
            self._arg_slices = None
            return a
        return self.unsequenced_args(params, a, cx)

    def hoist_throwing(self, v, pt, cx):
        """initialising a by-value parameter may raise (user copy / move constructor): in units with unwinding edges it
        is done in a statement of its own, so that the call is not made when it did"""
        if self.cfg.get('exc_edges') and cx.split_mode is None and re.search(r'\b\w+_(COPY|MOVE)\(', v) and pt.cls == 'record':
            t = cx.tmp('arg'); cx.pre.append(f'{pt.c} {t} = {v};'); return t
        return v

    def value_of(self, n, cx, t=None):
        """C rvalue for initialising an object of type t from expression n (copy / move semantics made explicit)"""
        return self.E(n, cx)

    # ---- calls
    def call_function(self, decl, self_arg, args, cx):
        params = self.params_of(decl)
        a = self.pass_args(params, args, cx)
        a = self.unsequenced_args(params, a, cx)
        cn = self.func_cname(decl)
        if self_arg is not None: a = [self_arg] + a
        if self.has_body(decl):
            self.enqueue(decl)
        else:
            self.declare_extern(decl, cn, self_arg is not None)
        a += self.ghost_args()
        text = f'{cn}({", ".join(a)})'
        if self.ret_ctype(decl).ref: text = f'(*{text})'
        return self.wrap_call(text, decl, cx)

    def unsequenced_args(self, params, a, cx):
        """C++ leaves the evaluation order of function arguments (including the initialisation of by-value parameters)
        unspecified.  When one argument moves from an object that another argument reads, both orders are emitted
        under a nondeterministic choice (g++ evaluates right to left, clang++ left to right).  The statements an
        argument hoisted (temporaries, copies of by-value parameters of a nested call) belong to that argument."""
        ps = [p for p in params if self.ctype(self.qt(p)).cls != 'empty']
        slices = getattr(self, '_arg_slices', None); self._arg_slices = None
        if len(a) < 2 or len(ps) != len(a): return a
        if not slices or len(slices) != len(a) or any(slices[i][1] != slices[i + 1][0] for i in range(len(a) - 1)) or slices[-1][1] != len(cx.pre):
            slices = [(len(cx.pre), len(cx.pre))] * len(a)
        texts = [x + ' ' + ' '.join(cx.pre[k0:k1]) for x, (k0, k1) in zip(a, slices)]
        hazard = False
        for i, x in enumerate(texts):
            for m in re.finditer(r'\w+_MOVE\(&?(\w+)\)', x):
                v = m.group(1)
                if any(j != i and re.search(r'\b' + re.escape(v) + r'\b', y) for j, y in enumerate(texts)): hazard = True
        if not hazard: return a
        groups = [cx.pre[k0:k1] for (k0, k1) in slices]
        del cx.pre[slices[0][0]:]
        decls = []; out = []
        for p, x, g in zip(ps, a, groups):
            pt = self.ctype(self.qt(p)); t = cx.tmp('u')
            m = re.match(r'^&\(([\w ]+)\)\{(.*)\}$', x)
            if m:       # reference bound to a temporary: the temporary itself is hoisted
                decls.append(f'{m.group(1)} {t};'); g.append(f'{t} = ({m.group(1)}){{{m.group(2)}}};'); out.append(f'&{t}')
            elif pt.ref:
                decls.append(f'{pt.c} *{t};'); g.append(f'{t} = {x};'); out.append(t)
            else:
                decls.append(f'{pt.c} {t};'); g.append(f'{t} = {x};'); out.append(t)
        o = cx.tmp('order')
        cx.pre.append('/* unsequenced argument evaluation (one argument moves from an object another one reads): both orders */')
        cx.pre.extend(decls)
        cx.pre.append(f'_Bool {o} = nondet_bool();')
        cx.pre.append(f'if ({o}) {{')
        for g in groups: cx.pre.extend('  ' + l for l in g)
        cx.pre.append('} else {')
        for g in reversed(groups): cx.pre.extend('  ' + l for l in g)
        cx.pre.append('}')
        self.notes.append(f'{cx.cname}: call with unsequenced move/read of the same object; both argument evaluation orders are explored')
        return out

    def wrap_call(self, text, decl, cx):
        return text

    def ghost_args(self):
        return [n for (t, n) in self.cfg.get('ghost_sig', [])]

    def ghost_decls(self):
        return [f'{t}{n}' for (t, n) in self.cfg.get('ghost_sig', [])]

    def declare_extern(self, decl, cn, has_self):
        if cn in self.externs: return
        oq = self.owner_of.get(decl['id'])
        ps = []
        if has_self:
            ps.append(f'{self.cname_of_record(oq) if oq else "void"} *self')
        for p in self.params_of(decl):
            if self.ctype(self.qt(p)).cls == 'empty': continue
            ps.append(self.ctype(self.qt(p)).decl(p.get('name') or f'a{len(ps)}'))
        rt = self.ret_ctype(decl)
        ps += self.ghost_decls()
        self.externs[cn] = f'{rt.decl("")}{cn}({", ".join(ps) or "void"})'

    def ret_ctype(self, decl):
        k = decl['kind']
        if k in ('CXXConstructorDecl', 'CXXDestructorDecl'): return self.ctype('void')
        q = decl['type']['qualType']
        # "RET (PARAMS) quals" or "auto (PARAMS) -> RET"
        m = re.search(r'->\s*(.*)$', q)
        if q.startswith('auto ') and m:
            r = m.group(1)
            # dependent trailing return types are resolved through any ReturnStmt / call site instead
            if 'enable_if' in r:
                r = self.resolve_enable_if(r)
            return self.ctype(r)
        d = 0
        for idx, ch in enumerate(q):
            if ch in '<': d += 1
            elif ch in '>': d -= 1
            elif ch == '(' and d == 0:
                return self.ctype(q[:idx].strip())
        raise Unsupported(f'cannot parse function type {q}')

    def resolve_enable_if(self, r):
        m = re.search(r',\s*([\w ]+)>::type$', r)
        if m: return m.group(1).strip()
        if re.search(r'enable_if<[^,]*>::type$', r) or re.search(r'::value>::type$', r): return 'void'
        raise Unsupported(f'cannot resolve return type {r}')

    def E_CXXMemberCallExpr(self, n, cx):
        callee = n['inner'][0]; args = n['inner'][1:]
        if callee.get('kind') != 'MemberExpr':
            raise Unsupported(f'member call through {callee.get("kind")} in {cx.cname}')
        obj = callee['inner'][0]
        name = callee['name']
        ot = self.ctype(self.qt(obj))
        arrow = callee.get('isArrow')
        if arrow:
            if ot.cls != 'ptr': raise Unsupported(f'-> call on {ot} in {cx.cname}')
            objptr = self.E(obj, cx); tcls = ot.elem
        else:
            tcls = ot; objptr = None
        def optr():
            return objptr if objptr is not None else self.addr_of(obj, cx)
        def oval():
            return f'(*{objptr})' if objptr is not None else self.E(obj, cx)
        cls = tcls.cls
        if cls == 'record':
            d = self.byid.get(callee.get('referencedMemberDecl'))
            if name.startswith('~') and tcls.c not in self.cfg.get('opaque_records', []):
                try: d = self.find_dtor(tcls)
                except Unsupported: d = None
                if d is not None:
                    self.enqueue(d); return f'{self.func_cname(d)}({", ".join([optr()] + self.ghost_args())})'
            if d is None or not self.has_body(d):
                d2 = self.resolve_method(tcls, name, len(args), self.qt(obj), self.qt(n), args)
                if d2 is not None: d = d2
            if d is None:
                return self.opaque_call(tcls, name, optr(), args, n, cx)
            return self.call_function(d, optr(), args, cx)
        if cls == 'wp':
            if name == 'lock': return f'weak_lock({optr()})'
            if name == 'expired': return f'weak_expired({optr()})'
            if name == 'operator bool': return f'(!weak_expired({optr()}))'
        if cls == 'sp':
            if name == 'operator bool': return f'({oval()} != NULL)'
            if name == 'reset' and not args: return f'({oval()} = NULL)'
            if name == 'get': return oval()
        if cls == 'atomic':
            if name == 'load': return f'(INTERFERE_POINT({cx.self_expr}), ATOMIC_LOAD({optr()}))'
            if name == 'store': return f'ATOMIC_STORE({optr()}, {self.E(args[0], cx)})'
            if name == 'exchange': return f'ATOMIC_EXCHANGE({optr()}, {self.E(args[0], cx)})'
            if name.startswith('operator ') and not args: return f'ATOMIC_LOAD({optr()})'
        if cls == 'mutex':
            if name == 'lock': return f'MUTEX_LOCK({optr()})'
            if name == 'unlock': return f'MUTEX_UNLOCK({optr()})'
        if cls in ('lambda', 'function') and name == 'operator()':
            return self.call_functor(tcls, optr(), args, n, cx)
        if cls == 'list':
            if name == 'empty': return f'(INTERFERE_POINT({cx.self_expr}), WLIST_EMPTY({optr()}))'
            if name == 'begin': return f'WLIST_BEGIN({optr()})'
            if name == 'end': return f'WLIST_END({optr()})'
            if name == 'front': return f'(*WLIST_FRONT({optr()}))'
            if name == 'emplace_back' and not args: return f'WLIST_EMPLACE_BACK({optr()})'
            if name in ('sort', 'merge') and len(args) == (1 if name == 'sort' else 2):
                # comparator given as the address of a static member function of this unit
                ca = self.skip(args[-1])
                if ca.get('kind') == 'UnaryOperator' and ca.get('opcode') == '&':
                    s0 = self.skip(ca['inner'][0])
                    d = self.byid.get(s0.get('referencedDecl', {}).get('id')) if s0.get('kind') == 'DeclRefExpr' else None
                    if d is not None and self.has_body(d):
                        self.enqueue(d); fnc = self.func_cname(d)
                        if name == 'sort': return f'WLIST_SORT_FN({optr()}, {fnc})'
                        return f'WLIST_MERGE_FN({optr()}, {self.addr_of(args[0], cx)}, {fnc})'
            if name == 'back' and not args: return f'(*WLIST_BACK({optr()}))'
            if name == 'sort' and len(args) == 1:
                lam = self.skip(args[0])
                while lam.get('kind') == 'CXXConstructExpr' and len(lam.get('inner', [])) == 1: lam = self.skip(lam['inner'][0])
                if lam.get('kind') != 'LambdaExpr': raise Unsupported(f'list::sort without a lambda comparator in {cx.cname}')
                clos = self.E(lam, cx); lt = self.ctype(self.qt(lam)); t = cx.tmp('cmp')
                cx.pre.append(f'{lt.c} {t} = {clos};')
                return f'WLIST_SORT({optr()}, {lt.c}_call, &{t})'
            if name == 'splice' and len(args) == 2:
                return f'WLIST_SPLICE_ALL({optr()}, {self.E(args[0], cx)}, {self.addr_of(args[1], cx)})'
            if name == 'splice' and len(args) == 3:
                return f'WLIST_SPLICE_ONE({optr()}, {self.E(args[0], cx)}, {self.addr_of(args[1], cx)}, {self.E(args[2], cx)})'
        if cls == 'vector':
            if name == 'begin': return f'WVEC_BEGIN({optr()})'
            if name == 'end': return f'WVEC_END({optr()})'
            if name == 'clear': return f'WVEC_CLEAR({optr()})'
            if name == 'empty': return f'WVEC_EMPTY({optr()})'
            if name == 'push_back' and len(args) == 1: return f'WVEC_PUSH_BACK({optr()}, {self.addr_of(args[0], cx)})'
            if name == 'erase' and len(args) == 1: return f'WVEC_ERASE({optr()}, {self.E(args[0], cx)})'
        if cls == 'map':
            if name == 'find' and len(args) == 1: return f'WMAP_FIND({optr()}, {self.E(args[0], cx)})'
            if name == 'end' and not args: return f'WMAP_END({optr()})'
            if name == 'begin' and not args: return f'WMAP_BEGIN({optr()})'
            if name == 'empty' and not args: return f'WMAP_EMPTY({optr()})'
            if name == 'erase' and len(args) == 1:
                at = self.ctype(self.qt(self.skip(args[0])))
                if at.cls == 'mapit': return f'WMAP_ERASE_IT({optr()}, {self.E(args[0], cx)})'
                return f'WMAP_ERASE_KEY({optr()}, {self.E(args[0], cx)})'
        if cls == 'condvar':
            if name == 'notify_one': return f'CONDVAR_NOTIFY_ONE({optr()})'
            if name == 'notify_all': return f'CONDVAR_NOTIFY_ALL({optr()})'
            if name in ('wait', 'wait_for'):
                lam = self.skip(args[-1])
                while lam.get('kind') == 'CXXConstructExpr' and len(lam.get('inner', [])) == 1:
                    lam = self.skip(lam['inner'][0])
                if lam.get('kind') != 'LambdaExpr': raise Unsupported(f'{name} without predicate lambda in {cx.cname}')
                clos = self.E(lam, cx)
                lt = self.ctype(self.qt(lam))
                t = cx.tmp('pred')
                cx.pre.append(f'{lt.c} {t} = {clos};')
                lk = self.E(args[0], cx)
                if name == 'wait': return f'CONDVAR_WAIT({optr()}, {lk}, {lt.c}_call, &{t})'
                return f'CONDVAR_WAIT_FOR({optr()}, {lk}, {lt.c}_call, &{t})'
        if cls == 'rawbuf' and name == 'data':
            return optr()
        raise Unsupported(f'member call {name} on {tcls} ({tcls.raw}) in {cx.cname}')

    def resolve_method(self, rec, name, nargs, objq, retq=None, args=None):
        """find a method definition of a registered record by name / arity / constness (references across AST dumps)"""
        q = None
        for qq, c in self.cnames.items():
            if c == rec.c and qq in self.records: q = qq
        if q is None: return None
        cands = []
        for c in self.records[q].get('inner', []):
            ds = [c] if c.get('kind') in ('CXXMethodDecl',) else [x for x in c.get('inner', []) if x.get('kind') == 'CXXMethodDecl'] if c.get('kind') == 'FunctionTemplateDecl' else []
            for d in ds:
                if d.get('name') == name and self.has_body(d) and len(self.params_of(d)) == nargs: cands.append(d)
        if len(cands) > 1:
            want_const = ' const' in objq or objq.strip().startswith('const ')
            cc = [d for d in cands if d['type']['qualType'].rstrip().endswith('const') == want_const]
            if cc: cands = cc
        if len(cands) > 1 and args is not None:
            # several instantiations of a member template that differ in a parameter type (set<U>(U &&)): the one whose
            # parameter types are the types of the call's arguments
            def tc(q):
                try: return self.ctype(q).c
                except Unsupported: return None
            at = [tc(self.qt(self.skip(x))) for x in args]
            cc = [d for d in cands if all(a is None or tc(self.qt(p)) in (None, a) for a, p in zip(at, self.params_of(d)))]
            if cc: cands = cc
        if len(cands) > 1 and retq:
            # several instantiations of a member template (get<U>): the one whose return type is the call's type
            def rc(d):
                try: return self.ret_ctype(d).c
                except Unsupported: return None
            try: want = self.ctype(retq).c
            except Unsupported: want = None
            cc = [d for d in cands if want is not None and rc(d) == want]
            if cc: cands = cc
            elif want is not None: return None
        if len(cands) > 1:
            # never guess between instantiations: a wrong pick would verify (or refute) the wrong function
            raise Unsupported(f'call of {rec.c}::{name} with {nargs} argument(s) cannot be resolved to ONE definition across AST dumps ({len(cands)} candidates)')
        return cands[0] if cands else None

    def opaque_call(self, rec, name, optr, args, n, cx):
        """member function of a record whose definition is outside the unit: environment stub.
        prvalue arguments are passed by value, everything else by address"""
        if name.startswith('~'):
            return f'{rec.c}_DTOR({optr})'           # explicit destructor call on an opaque (user) type
        opn = {'operator=': 'assign', 'operator()': 'call'}.get(name, re.sub(r'\W+', '_', name))
        if name == 'operator=' and args:
            opn = 'assign_move' if (self.is_move_call(args[0]) is not None or self.skip(args[0]).get('valueCategory') == 'xvalue') else 'assign_copy'
        cn = f'{rec.c}_{opn}'
        a = [optr]; ps = [f'{rec.c} *self']
        for i, x in enumerate(args):
            sx = self.skip(x)
            t = self.ctype(self.qt(sx))
            if t.cls == 'empty': continue
            if sx.get('valueCategory') == 'prvalue' and self.is_move_call(x) is None:
                v = self.value_of(x, cx, t); t = self.ctype(self.qt(sx))      # (a lambda gets its C name when it is translated)
                a.append(self.hoist_throwing(v, t, cx)); ps.append(f'{t.c} a{i}')
            else:
                a.append(self.addr_of(x, cx)); ps.append(f'{t.c} *a{i}')
            if t.cls == 'lambda': cn += '__' + t.c       # a lambda argument is part of the stub's name (its type is part of the signature)
        rt = self.ctype(self.qt(n))
        proto = lambda name: f'{rt.decl("").strip()} {name}({", ".join(ps + self.ghost_decls())})'
        if cn in self.externs and self.externs[cn] != proto(cn):
            # an overload of an environment function with other argument types: its own stub
            cn = cn + '__' + '_'.join(re.sub(r'\W+', '', p.split()[0]) for p in ps[1:])
        if cn not in self.externs:
            self.externs[cn] = proto(cn)
        return f'{cn}({", ".join(a + self.ghost_args())})'

    def call_functor(self, ft, optr, args, n, cx):
        """call through std::function / user functor / internal lambda"""
        if ft.cls == 'lambda' and ft.c in self.lambdas_by_c():
            info = self.lambdas_by_c()[ft.c]
            a = self.pass_args(info['params'], args, cx)
            return f'{ft.c}_call({", ".join([optr] + a + self.ghost_args())})'
        # opaque callable: arguments are passed by address (identity of the argument object is what matters)
        a = [self.addr_of(x, cx) for x in args]
        rt = self.ctype(self.qt(n))
        cn = f'{ft.c}_call'
        ps = [f'{ft.c} *f'] + [f'{self.ctype(self.qt(self.skip(x))).c} *a{i}' for i, x in enumerate(args)] + self.ghost_decls()
        if self.cfg.get('env_overloads') and cn in self.externs and self.externs[cn] != f'{rt.c} {cn}({", ".join(ps)})':
            cn = cn + '__' + '_'.join(re.sub(r'\W+', '', q.split()[0]) for q in ps[1:])      # overloaded operator(): one stub per signature
        if cn not in self.externs:
            self.externs[cn] = f'{rt.c} {cn}({", ".join(ps)})'
        return f'{cn}({", ".join([optr] + a + self.ghost_args())})'

    def lambdas_by_c(self):
        return {v['cname']: v for v in self.lambdas.values()}

    def E_CXXOperatorCallExpr(self, n, cx):
        nm, rd = self.callee_name(n['inner'][0])
        args = n['inner'][1:]
        a0 = args[0]
        t0 = self.ctype(self.qt(self.skip(a0)) if self.skip(a0).get('kind') != 'CallExpr' else self.qt(a0))
        cls = t0.cls
        if cls == 'sp' or (cls == 'nullptr' and len(args) == 2):
            if nm == 'operator=':
                return f'({self.E(a0, cx)} = {self.sp_value(args[1], cx)})'
            if nm == 'operator->': return self.E(a0, cx)
            if nm == 'operator*': return f'(*{self.E(a0, cx)})'
            if nm in ('operator==', 'operator!='):
                return f'({self.E(a0, cx)} {nm[8:]} {self.E(args[1], cx)})'
        if cls == 'map':
            if nm == 'operator[]': return f'(*WMAP_INDEX({self.addr_of(a0, cx)}, {self.E(args[1], cx)}))'
            if nm == 'operator=':
                mv = self.is_move_call(args[1])
                if mv is not None: return f'WMAP_ASSIGN_MOVE({self.addr_of(a0, cx)}, {self.addr_of(mv, cx)})'
                return f'WMAP_ASSIGN_COPY({self.addr_of(a0, cx)}, {self.addr_of(args[1], cx)})'
        if cls == 'mapit':
            if nm == 'operator!=': return f'WMIT_NE({self.E(a0, cx)}, {self.E(args[1], cx)})'
            if nm == 'operator==': return f'(!WMIT_NE({self.E(a0, cx)}, {self.E(args[1], cx)}))'
            if nm == 'operator->': return f'WMIT_DEREF({self.E(a0, cx)})'
            if nm == 'operator*': return f'(*WMIT_DEREF({self.E(a0, cx)}))'
        if cls == 'vecit':
            if nm == 'operator!=': return f'WVIT_NE({self.E(a0, cx)}, {self.E(args[1], cx)})'
            if nm == 'operator==': return f'(!WVIT_NE({self.E(a0, cx)}, {self.E(args[1], cx)}))'
            if nm == 'operator++': return f'WVIT_INC({self.addr_of(a0, cx)})'
            if nm == 'operator->': return f'WVIT_DEREF({self.E(a0, cx)})'
            if nm == 'operator*': return f'(*WVIT_DEREF({self.E(a0, cx)}))'
        if cls == 'vector' and nm == 'operator=':
            mv = self.is_move_call(args[1])
            if mv is not None: return f'WVEC_ASSIGN_MOVE({self.addr_of(a0, cx)}, {self.addr_of(mv, cx)})'
            return f'WVEC_ASSIGN_COPY({self.addr_of(a0, cx)}, {self.addr_of(args[1], cx)})'
        if cls == 'listit':
            if nm == 'operator!=': return f'WIT_NE({self.E(a0, cx)}, {self.E(args[1], cx)})'
            if nm == 'operator==': return f'(!WIT_NE({self.E(a0, cx)}, {self.E(args[1], cx)}))'
            if nm == 'operator++': return f'WIT_INC({self.addr_of(a0, cx)})'
            if nm == 'operator->': return f'WIT_DEREF({self.E(a0, cx)})'
            if nm == 'operator*': return f'(*WIT_DEREF({self.E(a0, cx)}))'
            if nm == 'operator=': return f'({self.E(a0, cx)} = {self.E(args[1], cx)})'
        if cls == 'wp' and nm == 'operator=':
            return f'({self.E(a0, cx)} = {self.E(args[1], cx)})'
        if cls == 'atomic':
            p = self.addr_of(a0, cx)
            A = self.atomic_prefix(a0)
            if A != 'ATOMIC':
                if nm == 'operator++': return f'{A}_PREINC({p})' if len(args) == 1 else f'{A}_POSTINC({p})'
                if nm == 'operator--': return f'{A}_PREDEC({p})' if len(args) == 1 else f'{A}_POSTDEC({p})'
            if nm == 'operator++': return f'ATOMIC_PREINC({p})' if len(args) == 1 else f'ATOMIC_POSTINC({p})'
            if nm == 'operator--': return f'ATOMIC_PREDEC({p})' if len(args) == 1 else f'ATOMIC_POSTDEC({p})'
            if nm == 'operator=': return f'ATOMIC_STORE({p}, {self.E(args[1], cx)})'
        if (cls in ('lambda', 'function') or (cls == 'record' and t0.c in self.cfg.get('opaque_records', []))) and nm == 'operator()':
            return self.call_functor(t0, self.addr_of(a0, cx), args[1:], n, cx)
        if cls == 'function' and nm == 'operator=':
            return f'({self.E(a0, cx)} = {self.E(args[1], cx)})'
        if cls == 'record' and rd is not None:
            d = self.byid.get(rd['id'])
            if d is None or not self.has_body(d):
                d2 = self.resolve_method(t0, nm, len(args) - 1, self.qt(self.skip(a0)))
                if d2 is not None: d = d2
            if d is not None and (self.has_body(d) or d.get('kind') == 'CXXMethodDecl'):
                return self.call_function(d, self.addr_of(a0, cx), args[1:], cx)
            if d is not None and d.get('kind') == 'FunctionDecl' and self.has_body(d):
                return self.call_function(d, None, args, cx)
            opn = {'operator==': 'eq', 'operator<': 'lt', 'operator!=': 'ne'}.get(nm)
            if opn and t0.c in self.cfg.get('opaque_records', []):
                cn = f'{t0.c}_{opn}'
                if cn not in self.externs:
                    self.externs[cn] = f'_Bool {cn}({t0.c} *a0, {t0.c} *a1{"".join(", " + g for g in self.ghost_decls())})'
                return f'{cn}({", ".join([self.addr_of(x, cx) for x in args] + self.ghost_args())})'
        raise Unsupported(f'operator call {nm} on {t0} in {cx.cname}')

    def atomic_prefix(self, n):
        """accesses to selected atomic fields go through their own hook macros (unit config atomic_field_hooks)"""
        m = self.skip(n)
        while m.get('kind') == 'ImplicitCastExpr' and m.get('castKind') in ('DerivedToBase', 'UncheckedDerivedToBase'):
            m = self.skip(m['inner'][0])
        if m.get('kind') == 'MemberExpr':
            base = m['inner'][0]
            try:
                bt = self.ctype(self.qt(base))
            except Unsupported:
                return 'ATOMIC'
            rec = bt.elem.c if bt.cls == 'ptr' and bt.elem else bt.c
            return self.cfg.get('atomic_field_hooks', {}).get(rec + '.' + m['name'], 'ATOMIC')
        return 'ATOMIC'

    def sp_value(self, n, cx):
        """value of a shared_ptr expression used to initialise / assign another one"""
        mv = self.is_move_call(n)
        if mv is not None:
            return f'SP_MOVE({self.addr_of(mv, cx)})'
        s = self.skip(n)
        if s.get('kind') == 'CXXConstructExpr' and self.ctype(self.qt(s)).cls == 'sp':
            return self.E(s, cx)
        return self.E(n, cx)

    def E_CallExpr(self, n, cx):
        nm, rd = self.callee_name(n['inner'][0])
        args = n['inner'][1:]
        if nm in ('move', 'forward') and len(args) == 1:
            return self.E(args[0], cx)
        if nm == 'swap' and len(args) == 2:
            t = self.ctype(self.qt(self.skip(args[0])))
            if t.cls == 'list':
                return f'WLIST_SWAP({self.addr_of(args[0], cx)}, {self.addr_of(args[1], cx)})'
            if t.cls == 'vector':
                return f'WVEC_SWAP({self.addr_of(args[0], cx)}, {self.addr_of(args[1], cx)})'
            if t.cls == 'map':
                return f'WMAP_SWAP({self.addr_of(args[0], cx)}, {self.addr_of(args[1], cx)})'
            if t.cls in ('ptr', 'builtin', 'fnptr'):
                return f'SCALAR_SWAP({self.addr_of(args[0], cx)}, {self.addr_of(args[1], cx)})'
            if t.cls == 'sp':
                return f'SP_SWAP({self.addr_of(args[0], cx)}, {self.addr_of(args[1], cx)})'
            if t.cls == 'record' and rd is not None and self.byid.get(rd['id']) is not None and self.has_body(self.byid[rd['id']]):
                return self.call_function(self.byid[rd['id']], None, args, cx)
            raise Unsupported(f'swap of {t} in {cx.cname}')
        if nm in ('lower_bound', 'upper_bound') and len(args) == 4:
            ca = self.skip(args[3])
            if ca.get('kind') == 'UnaryOperator' and ca.get('opcode') == '&':
                s0 = self.skip(ca['inner'][0])
                d = self.byid.get(s0.get('referencedDecl', {}).get('id')) if s0.get('kind') == 'DeclRefExpr' else None
                if d is not None and self.has_body(d) and self.ctype(self.qt(self.skip(args[0]))).cls == 'listit':
                    self.enqueue(d)
                    return f'WLIST_{nm.upper()}_FN({self.E(args[0], cx)}, {self.E(args[1], cx)}, {self.addr_of(args[2], cx)}, {self.func_cname(d)})'
        if nm == 'find_if' and len(args) == 3:
            lam = self.skip(args[2])
            while lam.get('kind') == 'CXXConstructExpr' and len(lam.get('inner', [])) == 1: lam = self.skip(lam['inner'][0])
            if lam.get('kind') != 'LambdaExpr': raise Unsupported(f'std::find_if without a lambda in {cx.cname}')
            clos = self.E(lam, cx); lt = self.ctype(self.qt(lam)); t = cx.tmp('pred')
            cx.pre.append(f'{lt.c} {t} = {clos};')
            return f'WVEC_FIND_IF({self.E(args[0], cx)}, {self.E(args[1], cx)}, {lt.c}_call, &{t})'
        if nm == 'get' and len(args) == 1:
            ct = self.skip(n['inner'][0]).get('type', {}).get('qualType', '')
            m = re.search(r'tuple_element<(\d+)', ct)
            at = self.ctype(self.qt(self.skip(args[0])))
            idx = m.group(1) if m else None
            if idx is None:
                if self.cfg.get('tuple_arity', {}).get(at.c, 1) != 1: raise Unsupported(f'std::get index unknown in {cx.cname}')
                idx = '0'
            return f'({self.E(args[0], cx)}).a{idx}'
        if nm == 'swap' and len(args) == 2 and self.ctype(self.qt(self.skip(args[0]))).cls == 'list':
            return f'WLIST_SWAP({self.addr_of(args[0], cx)}, {self.addr_of(args[1], cx)})'
        c0 = self.skip(n['inner'][0])
        def is_fnptr(x):
            try: return self.ctype(self.qt(x)).cls == 'fnptr'
            except Unsupported: return False
        if c0.get('kind') in ('MemberExpr', 'DeclRefExpr') and is_fnptr(c0):
            mac = 'FNPTR_CALL'
            if self.cfg.get('fnptr_by_member') and c0.get('kind') == 'MemberExpr': mac += '_' + c0.get('name', '')     # one dispatcher per function-pointer member
            return f'{mac}({self.E(n["inner"][0], cx)}, {", ".join(self.E(x, cx) for x in args)})'
        if nm == '__assert_fail':
            return 'SRC_ASSERT_FAIL()'
        if nm == 'make_shared':
            rt = self.ctype(self.qt(n))
            return self.make_shared(rt, args, n, cx)
        if rd is not None:
            d = self.byid.get(rd['id'])
            if d is not None and (d.get('name') != rd.get('name') or (rd.get('type', {}).get('qualType') and d.get('type', {}).get('qualType') != rd['type']['qualType'])):
                d = None          # an id that resolved into another dump must denote the same declaration
            if d is None or not self.has_body(d):
                d2 = self.find_free_function(nm, rd.get('type', {}).get('qualType'))
                if d2 is not None: d = d2
            if d is not None and d.get('kind') in ('FunctionDecl', 'CXXMethodDecl'):
                # static member function or free function of eventpp
                return self.call_function(d, None, args, cx)
        if nm in self.cfg.get('env_calls', {}):
            # environment (policy) function that is outside the dump: opaque stub, arguments by address
            cn = self.cfg['env_calls'][nm] + (str(len(args)) if len(args) != 1 else '')
            a = []; ps = []
            for i, x in enumerate(args):
                sx = self.skip(x); tx = self.ctype(self.qt(sx))
                if sx.get('valueCategory') == 'prvalue' and self.is_move_call(x) is None:
                    a.append(self.hoist_throwing(self.E(x, cx), tx, cx)); ps.append(f'{tx.c} a{i}')
                else:
                    a.append(self.addr_of(x, cx)); ps.append(f'{tx.c} *a{i}')
            rt = self.ctype(self.qt(n))
            ps = ps + self.ghost_decls()
            if self.cfg.get('env_overloads') and cn in self.externs and self.externs[cn] != f'{rt.c} {cn}({", ".join(ps) or "void"})':
                # overloaded policy function: one stub per signature
                cn = cn + '__' + '_'.join(re.sub(r'\W+', '', q.rsplit(' ', 1)[0]) for q in ps)
            if cn not in self.externs:
                self.externs[cn] = f'{rt.c} {cn}({", ".join(ps) or "void"})'
            return f'{cn}({", ".join(a + self.ghost_args())})'
        raise Unsupported(f'call to {nm} in {cx.cname}')

    def find_free_function(self, name, qual):
        """free function template instantiation by name and instantiated type (references across AST dumps)"""
        if not hasattr(self, '_ffidx'):
            self._ffidx = {}; self._ffbody = {}; self._ffamb = set()
            def walk(n):
                if isinstance(n, dict):
                    if n.get('kind') == 'FunctionDecl' and self.has_body(n) and any(a.get('kind') == 'TemplateArgument' for a in n.get('inner', [])):
                        self._ffidx.setdefault((n.get('name'), n.get('type', {}).get('qualType')), n)
                    if n.get('kind') == 'CXXMethodDecl' and n.get('storageClass') == 'static' and self.has_body(n) and self.cfg.get('static_methods_by_type'):
                        # static member function (template instantiation) of a helper class template, e.g. ForEachMixins<...>::forEach:
                        # found by name and instantiated type when node ids do not agree across dumps; several definitions
                        # with that name and type are accepted only if their bodies are the same text
                        k = (n.get('name'), n.get('type', {}).get('qualType'))
                        def norm(x):
                            if isinstance(x, dict): return {a: norm(b) for a, b in x.items() if a not in ('id', 'loc', 'range', 'referencedDecl', 'previousDecl', 'parentDeclContextId')}
                            if isinstance(x, list): return [norm(y) for y in x]
                            return x
                        body = json.dumps(norm([c for c in n.get('inner', []) if c.get('kind') == 'CompoundStmt']), sort_keys=True)
                        cur = self._ffidx.get(k)
                        if cur is None: self._ffidx[k] = n; self._ffbody[k] = body
                        elif self._ffbody.get(k) != body: self._ffamb.add(k)
                    for c in n.get('inner', []): walk(c)
            for d in self.docs: walk(d)
        if (name, qual) in self._ffamb:
            raise Unsupported(f'call of {name} ({qual}) cannot be resolved to ONE definition across AST dumps')
        return self._ffidx.get((name, qual))

    def make_shared(self, rt, args, n, cx):
        rec = rt.elem
        # find the constructor chosen: look for a constructor of the record with matching arity
        qn = None
        for q, c in self.cnames.items():
            if c == rec.c and q in self.records: qn = q
        if qn is None: raise Unsupported(f'make_shared of unknown record {rec.c}')
        ctors = [c for c in self.records[qn].get('inner', []) if c.get('kind') == 'CXXConstructorDecl' and not c.get('isImplicit') and len(self.params_of(c)) == len(args)]
        if not ctors and len(args) == 1 and rec.c in self.cfg.get('value_records', []):
            self.externs[f'{rec.c}_alloc'] = f'{rec.c} *{rec.c}_alloc({", ".join(self.ghost_decls()) or "void"})'
            return f'MAKE_SHARED_VALUE({rec.c}, {rec.c}_alloc({", ".join(self.ghost_args())}), {self.E(args[0], cx)})'
        if len(ctors) != 1: raise Unsupported(f'make_shared<{rec.c}>: cannot select constructor')
        ctor = ctors[0]
        self.enqueue(ctor)
        cn = self.func_cname(ctor)
        ms = f'{rec.c}_make_shared{len(args)}'
        ps = self.params_of(ctor)
        if ms not in self.make_shared_emitted:
            self.make_shared_emitted.add(ms)
            pd = ', '.join([self.ctype(self.qt(p)).decl(p['name']) for p in ps] + self.ghost_decls())
            pa = ', '.join([p['name'] for p in ps] + self.ghost_args())
            text = (f'{rec.c} *{ms}({pd})\n#ifdef USE_CONTRACT_{ms}\nCONTRACT({ms})\n#endif\n{{\n  {rec.c} *__n = {rec.c}_alloc({", ".join(self.ghost_args())});\n'
                    f'  if (EXC_PENDING) return NULL;\n  {cn}(__n, {pa});\n  if (EXC_PENDING) return NULL;      /* the constructor raised: make_shared releases the storage */\n  return __n;\n}}')
            self.funcs.append((ms, f'{rec.c} *{ms}({pd})', text, 'std::make_shared = trusted allocation + extracted constructor'))
            self.externs[f'{rec.c}_alloc'] = f'{rec.c} *{rec.c}_alloc({", ".join(self.ghost_decls()) or "void"})'
        a = self.pass_args(ps, args, cx) + self.ghost_args()
        return f'{ms}({", ".join(a)})'

    def E_CXXConstructExpr(self, n, cx):
        t = self.ctype(self.qt(n)); args = n.get('inner', [])
        if t.cls == 'atomic' and len(args) == 1:
            # Atomic<T>(value) of a policy whose Atomic is a plain wrapper (SingleThreading): the value itself
            at = self.ctype(self.qt(self.skip(args[0])))
            return f'ATOMIC_LOAD({self.addr_of(args[0], cx)})' if at.cls == 'atomic' else self.E(args[0], cx)
        if t.cls == 'sp':
            if not args: return 'NULL'
            if len(args) == 1: return self.sp_value(args[0], cx)
        if t.cls == 'wp':
            if not args: return f'({t.c}){{NULL}}'
            if len(args) == 1:
                at = self.ctype(self.qt(self.skip(args[0])))
                if at.cls == 'sp': return f'HANDLE_FROM_SP({self.E(args[0], cx)})'
                if at.cls == 'wp': return self.E(args[0], cx)
        if t.cls == 'function' and len(args) == 1:
            at = self.ctype(self.qt(self.skip(args[0])))
            if at.cls == 'function':
                mv = self.is_move_call(args[0])
                if mv is not None: return f'CALLBACK_MOVE({self.addr_of(mv, cx)})'
                return f'CALLBACK_COPY({self.addr_of(args[0], cx)})'
        if t.cls == 'record' and len(args) == 1 and t.c in self.cfg.get('value_records', []) and self.same_record(args[0], t):
            mv = self.is_move_call(args[0])
            if mv is not None: return f'{t.c}_MOVE({self.addr_of(mv, cx)})'
            return f'{t.c}_COPY({self.addr_of(args[0], cx)})'
        if t.cls == 'function' and len(args) == 1:
            at = self.ctype(self.qt(self.skip(args[0])))
            if at.cls in ('record', 'lambda'):
                return f'CALLBACK_FROM_FUNCTOR({at.c}, {self.addr_of(args[0], cx)})'
        if t.cls in ('builtin',) and len(args) == 1:
            return self.E(args[0], cx)
        if t.cls in ('listit', 'vecit', 'mapit') and len(args) == 1:
            return self.E(args[0], cx)
        if t.cls == 'empty':
            return '0'
        if t.cls == 'record' and t.c in self.cfg.get('value_records', []) and not args:
            return f'{t.c}_DEFAULT()'
        if t.cls == 'record' and t.c in self.cfg.get('value_records', []) and t.c in self.cfg.get('tuple_ctor', []):
            # std::tuple<T...>(args...): element-wise construction, in order
            parts = []
            for i, x in enumerate(args):
                et = self.ctype(self.qt(self.skip(x)))
                mv = self.is_move_call(x)
                if et.cls == 'record' and et.c in self.cfg.get('value_records', []):
                    parts.append(f'.a{i} = ' + (f'{et.c}_MOVE({self.addr_of(mv, cx)})' if mv is not None else f'{et.c}_COPY({self.addr_of(x, cx)})'))
                else:
                    parts.append(f'.a{i} = {self.E(x, cx)}')
            return f'({t.c}){{{", ".join(parts)}}}'
        if t.cls == 'record' and t.c not in self.cfg.get('value_records', []) and t.c not in self.cfg.get('opaque_records', []):
            # temporary of a record of this unit: storage in the enclosing block, its extracted constructor runs on it
            try: c = self.find_ctor(t, n)
            except Unsupported: c = None
            if c is not None:
                self.enqueue(c)
                tmp = cx.tmp('tmp')
                a = [f'&{tmp}'] + self.pass_ctor_args(c, n, args, cx) + self.ghost_args()
                cx.pre.append(f'{t.c} {tmp};')
                cx.pre.append(f'{self.func_cname(c)}({", ".join(a)});')
                dt = self.find_dtor(t)
                if dt is not None:
                    self.enqueue(dt); cx.scopes[-1].append(f'{self.func_cname(dt)}({", ".join([f"&{tmp}"] + self.ghost_args())});')
                return tmp
        raise Unsupported(f'construction of {t} with {len(args)} args as an expression in {cx.cname}')

    def same_record(self, arg, t):
        try:
            at = self.ctype(self.qt(self.skip(arg)))
        except Unsupported:
            return False
        return at.cls == 'record' and at.c == t.c

    def E_LambdaExpr(self, n, cx):
        rec = n['inner'][0]
        info = self.lambda_info(rec, n, cx)
        inits = []
        for (fname, byref, cap) in info['captures']:
            if cap.get('kind') == 'CXXThisExpr':
                inits.append(f'.{fname} = {cx.self_expr}')
            else:
                e = self.E(cap, cx)
                inits.append(f'.{fname} = &{e}' if byref else f'.{fname} = {e}')
        return f'({info["cname"]}){{{", ".join(inits)}}}'

    def lambda_info(self, rec, n, cx):
        rid = rec['id']
        if rid in self.lambdas: return self.lambdas[rid]
        k = self.lambda_counter.get(cx.cname, 0); self.lambda_counter[cx.cname] = k + 1
        cname = f'{cx.cname}__lambda{k}'
        tq = strip_ns(n['type']['qualType'])
        self.lambda_by_type[tq] = cname
        fields = [c for c in rec['inner'] if c.get('kind') == 'FieldDecl']
        op = [c for c in rec['inner'] if c.get('kind') == 'CXXMethodDecl' and c.get('name') == 'operator()'][0]
        capinits = n['inner'][1:1 + len(fields)]
        caps = []; sfields = []
        for i, (f, ci) in enumerate(zip(fields, capinits)):
            ft = self.ctype(self.qt(f))
            c0 = self.skip(ci)
            while c0.get('kind') == 'CXXConstructExpr' and len(c0.get('inner', [])) == 1:
                c0 = self.skip(c0['inner'][0])      # by-copy capture of a class-type variable
            if c0.get('kind') == 'CXXThisExpr':
                fname = 'self'; sfields.append(f'  {ft.c} {fname};'); caps.append((fname, False, c0))
            elif c0.get('kind') == 'DeclRefExpr':
                fname = 'cap_' + c0['referencedDecl']['name']
                if ft.ref: sfields.append(f'  {ft.c} *{fname};')
                else: sfields.append(f'  {ft.c} {fname};')
                caps.append((fname, ft.ref, c0))
            else:
                raise Unsupported(f'lambda capture initialiser {c0.get("kind")} in {cx.cname}')
        self.struct_order.append(cname)
        self.struct_text[cname] = f'struct {cname} {{\n' + '\n'.join(sfields) + '\n};'
        info = dict(cname=cname, captures=caps, op=op, params=self.params_of(op), type=tq, parent=cx.cname)
        self.lambdas[rid] = info
        self.emit_lambda(info, n)
        return info

    def emit_lambda(self, info, n):
        op = info['op']
        cname = info['cname'] + '_call'
        cx = Ctx(self, cname, self_expr='__c->self')
        for (fname, byref, cap) in info['captures']:
            if cap.get('kind') == 'DeclRefExpr':
                ft = self.ctype(self.qt(cap))
                cx.vars[cap['referencedDecl']['id']] = ((f'(*__c->{fname})' if byref else f'__c->{fname}'), ft)
        body = [c for c in op['inner'] if c.get('kind') == 'CompoundStmt'][0]
        self.emit_function_text(op, cname, f'{info["cname"]} *__c', body, cx)

    # ------------------------------------------------------------------ statements
    def S(self, n, cx):
        k = n.get('kind')
        h = getattr(self, 'S_' + k, None)
        if h is None:
            # expression statement
            e = self.E(n, cx)
            self.flush_pre(cx)
            cx.emit(self.srcnote(n) + e + ';')
            if 'WLIST_SPLICE_ONE(' in e:
                # std::list iterators stay valid across splice; index iterators need the stability rule
                for vid, (cexpr, t) in cx.vars.items():
                    if t.cls == 'listit' and not t.ref:
                        cx.emit(f'WIT_STABLE(&{cexpr});')
            if '(' in e: self.exc_edge(cx)
            return
        h(n, cx)

    def srcnote(self, n):
        return ''

    def exc_edge(self, cx):
        """unwinding edge (units with cfg exc_edges, compiled in with -DMODE_EXC only): if the statement just executed
        raised (ghost g_exc, set by a may-throw primitive or by a callee that unwound), the destructors of every open
        scope run in reverse order and the function is left"""
        if not self.cfg.get('exc_edges') or cx.split_mode is not None: return
        rt = cx.ret
        if rt.cls == 'void' and not rt.ref: ret = 'return;'
        elif rt.ref and cx.self_expr == 'self' and cx.self_type and rt.c == cx.self_type: ret = 'return self;      /* (value unused: the caller unwinds) */'
        elif rt.ref or rt.cls in ('ptr', 'sp'): ret = 'return NULL;'
        elif rt.cls in ('builtin', 'enum'): ret = 'return 0;'
        else: ret = f'return ({rt.c}){{0}};'
        cx.emit('#ifdef MODE_EXC')
        if cx.try_stack:
            label, depth = cx.try_stack[-1]
            cx.emit('if (g_exc) { /* unwinding inside a try block: the scopes opened in it are left, then the handler runs */')
            cx.ind += 1; cx.emit('g_exc = 0;'); self.exit_scopes(cx, depth); cx.emit('g_exc = 1;'); cx.emit(f'goto {label};'); cx.ind -= 1
        else:
            cx.emit('if (g_exc) { /* unwinding: the destructors run as ordinary code, then the exception continues */')
            cx.ind += 1; cx.emit('g_exc = 0;'); self.exit_scopes(cx, 0)
            for ua in cx.unwind_actions: cx.emit(ua)
            cx.emit('g_exc = 1;'); cx.emit(ret); cx.ind -= 1
        cx.emit('}')
        cx.emit('#endif')

    def S_CXXTryStmt(self, n, cx):
        """try { body } catch (...) { handler }: outside mode exc no exception exists and only the body is emitted; in mode
        exc the unwinding edges of the body lead to the handler, which starts with the exception caught (g_exc = 0)"""
        kids = n.get('inner', [])
        body, handlers = kids[0], kids[1:]
        if not self.cfg.get('exc_edges') or cx.split_mode is not None:
            raise Unsupported(f'try block in {cx.cname} (unit without unwinding edges)')
        if len(handlers) != 1 or handlers[0].get('kind') != 'CXXCatchStmt':
            raise Unsupported(f'try block with {len(handlers)} handlers in {cx.cname}')
        hk = handlers[0].get('inner', [])
        if len(hk) != 2 or hk[0].get('kind') not in (None, '') or hk[1].get('kind') != 'CompoundStmt':
            raise Unsupported(f'handler other than catch (...) in {cx.cname}')
        label = '__catch' + cx.tmp('h').strip('_')
        cx.try_stack.append((label, len(cx.scopes)))
        self.S(body, cx)
        cx.try_stack.pop()
        cx.emit('#ifdef MODE_EXC')
        cx.emit(f'if (0) {{ {label}: ;')
        cx.ind += 1
        cx.emit('g_exc = 0;      /* caught */')
        cx.in_handler += 1
        self.S(hk[1], cx)
        cx.in_handler -= 1
        cx.ind -= 1
        cx.emit('}')
        cx.emit('#endif')
        self.notes.append(f'{cx.cname}: try / catch (...): handler reachable in mode exc only')

    def S_CXXThrowExpr(self, n, cx):
        if n.get('inner') or not cx.in_handler or not self.cfg.get('exc_edges'):
            raise Unsupported(f'throw expression in {cx.cname} (only the rethrow "throw;" inside catch (...) is in the vocabulary)')
        cx.emit('g_exc = 1;      /* rethrow */')
        self.exc_edge(cx)

    def flush_pre(self, cx):
        pre = cx.pre; cx.pre = []
        for p in pre:
            cx.emit(p)
            q = p.lstrip()
            if '(' in q and not q.startswith('/*') and not re.match(r'(_Bool __order\d+ = nondet_bool\(\);|if \(__order\d+\) \{)$', q): self.exc_edge(cx)      # a hoisted temporary whose initialiser may raise

    def S_NullStmt(self, n, cx): pass

    def S_CompoundStmt(self, n, cx):
        cx.emit('{'); cx.ind += 1
        cx.scopes.append([])
        last = None
        kids = n.get('inner', [])
        for i, c in enumerate(kids):
            if c.get('kind') in ('WhileStmt', 'ForStmt'):
                cx.siblings_before = kids[:i]; cx.siblings_after = kids[i + 1:]
            self.S(c, cx); last = c.get('kind')
        cl = cx.scopes.pop()
        if last not in ('ReturnStmt', 'BreakStmt', 'ContinueStmt'):
            for s in reversed(cl): cx.emit(s)
        cx.ind -= 1; cx.emit('}')

    def S_DeclStmt(self, n, cx):
        for v in n['inner']:
            if v.get('kind') in ('TypeAliasDecl', 'TypedefDecl', 'UsingDecl', 'StaticAssertDecl'): continue
            if v.get('kind') != 'VarDecl': raise Unsupported(f'declaration {v.get("kind")} in {cx.cname}')
            k0 = len(cx.lines)
            self.var_decl(v, cx)
            if any('(' in l and 'MUTEX_LOCK' not in l and 'WLIST_INIT' not in l for l in cx.lines[k0:]): self.exc_edge(cx)

    def var_decl(self, v, cx):
        t = self.ctype(self.qt(v))
        if v['id'] in getattr(cx, 'predecl', {}):
            # prologue of a split loop: the local is an out-parameter here
            lv = cx.vars[v['id']][0]
            init = v['inner'][0] if v.get('inner') else None
            if init is None: return
            e = self.sp_value(init, cx) if t.cls == 'sp' else self.E(init, cx)
            self.flush_pre(cx)
            cx.emit(f'{lv} = {e};')
            return
        vname = v['name']
        m = re.match(r'^__(range|begin|end)\d+$', vname)
        if m:
            # compiler-generated names of a range-for: numbered by nesting in clang, renamed by loop ordinal here
            vname = f'__{m.group(1)}_L{max(cx.loopn - 1, 0)}'
        name = cx.uniq(vname)
        init = v['inner'][0] if v.get('inner') else None
        if t.cls == 'lock_guard':
            s = self.skip(init)
            if s.get('kind') != 'CXXConstructExpr' or len(s.get('inner', [])) != 1:
                raise Unsupported(f'lock_guard construction shape in {cx.cname}')
            m = self.addr_of(s['inner'][0], cx)
            cx.emit(f'MUTEX_LOCK({m});')
            cx.scopes[-1].append(f'MUTEX_UNLOCK({m});')
            return
        if t.cls == 'unique_lock':
            s = self.skip(init)
            if s.get('kind') != 'CXXConstructExpr' or len(s.get('inner', [])) != 1:
                raise Unsupported(f'unique_lock construction shape in {cx.cname}')
            m = self.addr_of(s['inner'][0], cx)
            cx.emit(f'MUTEX_LOCK({m});')
            cx.scopes[-1].append(f'MUTEX_UNLOCK({m});')
            cx.vars[v['id']] = (m, t)
            return
        if t.cls == 'map' and not t.ref:
            # local map (e.g. copy-and-swap): default / copy / move constructed
            s = self.skip(init) if init else None
            cx.emit(f'{t.c} {name};'); cx.emit(f'WMAP_INIT_LOCAL(&{name});')
            if s is not None and s.get('kind') == 'CXXConstructExpr' and len(s.get('inner', [])) == 1:
                mv = self.is_move_call(s['inner'][0])
                if mv is not None: cx.emit(f'WMAP_CTOR_MOVE(&{name}, {self.addr_of(mv, cx)});')
                else: cx.emit(f'WMAP_CTOR_COPY(&{name}, {self.addr_of(s["inner"][0], cx)});')
            elif s is not None and (s.get('kind') != 'CXXConstructExpr' or s.get('inner')):
                raise Unsupported(f'map variable {name} construction in {cx.cname}')
            cx.scopes[-1].append(f'WMAP_DTOR(&{name});')
            cx.vars[v['id']] = (name, t)
            return
        if t.cls == 'list' and not t.ref:
            s = self.skip(init) if init else None
            if s is not None and (s.get('kind') != 'CXXConstructExpr' or s.get('inner')):
                raise Unsupported(f'list variable {name} is not default-constructed in {cx.cname}')
            cx.emit(f'{t.c} {name};'); cx.emit(f'WLIST_INIT(&{name});')
            cx.scopes[-1].append(f'WLIST_DTOR(&{name});')
            cx.vars[v['id']] = (name, t)
            return
        if t.ref:
            cx.emit(f'{t.c} *{name} = {self.addr_of(init, cx)};')
            cx.vars[v['id']] = (f'(*{name})', t)
            return
        if t.cls == 'record' and t.c not in self.cfg.get('value_records', []):
            s = self.skip(init) if init else None
            cx.emit(f'{t.c} {name};')
            cx.vars[v['id']] = (name, t)
            if s is not None and s.get('kind') == 'InitListExpr':
                # aggregate (e.g. a static table of function pointers): a C initialiser list
                cx.lines.pop()
                sc = 'static ' if v.get('storageClass') == 'static' else ''
                init = ", ".join(self.E(x, cx) for x in s.get("inner", []))
                if sc:
                    # function-local static table: (re)initialised on every call with the same constants -- CBMC's contract
                    # instrumentation does not keep initialisers of local statics
                    cx.emit(f'static {t.c} {name};'); cx.emit(f'{name} = ({t.c}){{ {init} }};')
                else:
                    cx.emit(f'{t.c} {name} = {{ {init} }};')
                return
            if t.c in self.cfg.get('opaque_records', []) and (s is None or s.get('kind') == 'CXXConstructExpr'):
                # local object of a class outside the unit (e.g. a copy of a callback list): its constructors and its
                # destructor are environment stubs, the spec says what a copy is
                args = s.get('inner', []) if s is not None else []
                if len(args) > 1: raise Unsupported(f'construction of {t.c} {name} from {len(args)} arguments in {cx.cname}')
                if not args:
                    cn = f'{t.c}_ctor'; a = [f'&{name}']; sig = f'void {cn}({t.c} *self)'
                else:
                    mv = self.is_move_call(args[0])
                    cn = f'{t.c}_ctor_move' if mv is not None else f'{t.c}_ctor_copy'
                    a = [f'&{name}', self.addr_of(mv if mv is not None else args[0], cx)]; sig = f'void {cn}({t.c} *self, {t.c} *other)'
                self.externs.setdefault(cn, sig)
                self.flush_pre(cx)
                cx.emit(f'{cn}({", ".join(a)});')
                dn = f'{t.c}_dtor'; self.externs.setdefault(dn, f'void {dn}({t.c} *self)')
                cx.scopes[-1].append(f'{dn}(&{name});')
                return
            if s is None or s.get('kind') != 'CXXConstructExpr':
                raise Unsupported(f'record variable {name} without constructor call in {cx.cname}')
            ctor = self.find_ctor(t, s)
            args = s.get('inner', [])
            cn = self.func_cname(ctor); self.enqueue(ctor)
            a = [f'&{name}'] + self.pass_ctor_args(ctor, s, args, cx) + self.ghost_args()
            self.flush_pre(cx)
            cx.emit(f'{cn}({", ".join(a)});')
            self.after_call_hook(ctor, cx)
            dt = self.find_dtor(t)
            if dt is not None:
                self.enqueue(dt)
                cx.scopes[-1].append(f'{self.func_cname(dt)}({", ".join([f"&{name}"] + self.ghost_args())});')
            return
        if init is None:
            cx.emit(f'{t.c} {name};')
        else:
            e = self.sp_value(init, cx) if t.cls == 'sp' else self.E(init, cx)
            self.flush_pre(cx)
            cx.emit(f'{t.c} {name} = {e};')
        cx.vars[v['id']] = (name, t)

    def after_call_hook(self, decl, cx):
        pass

    def record_q(self, t):
        for q, c in self.cnames.items():
            if c == t.c and q in self.records: return q
        raise Unsupported(f'record {t.c} not registered')

    def find_ctor(self, t, cexpr):
        q = self.record_q(t)
        want = strip_ns(cexpr.get('ctorType', {}).get('qualType', ''))
        for c in self.records[q].get('inner', []):
            if c.get('kind') == 'CXXConstructorDecl' and strip_ns(c['type']['qualType']) == want and self.has_body(c):
                return c
            if c.get('kind') == 'FunctionTemplateDecl':      # constructor template: its instantiations
                for x in c.get('inner', []):
                    if x.get('kind') == 'CXXConstructorDecl' and strip_ns(x['type']['qualType']) == want and self.has_body(x):
                        return x
        raise Unsupported(f'constructor {want} of {q} not found')

    def find_dtor(self, t):
        q = self.record_q(t)
        for c in self.records[q].get('inner', []):
            if c.get('kind') == 'CXXDestructorDecl' and self.has_body(c): return c
        return None

    def S_IfStmt(self, n, cx):
        parts = n['inner']
        if n.get('hasInit') or n.get('hasVar'): raise Unsupported(f'if with init/var in {cx.cname}')
        cond = self.E(parts[0], cx)
        self.flush_pre(cx)
        if self.cfg.get('exc_edges') and cx.split_mode is None and re.search(r'[A-Za-z_]\w*\(', cond) and not re.fullmatch(r'[\s!()]*(WLIST_EMPTY|INTERFERE_POINT|WIT_NE|WLIST_END|WLIST_BEGIN)\b.*', cond):
            # a condition that calls something may raise: it is evaluated into a temporary, then the unwinding edge
            t = cx.tmp('c')
            cx.emit(f'_Bool {t} = ({cond});')
            self.exc_edge(cx)
            cond = t
        cx.emit(f'if ({cond})')
        self.S_block(parts[1], cx)
        if len(parts) > 2:
            cx.emit('else')
            self.S_block(parts[2], cx)

    def S_block(self, n, cx):
        if n.get('kind') == 'CompoundStmt': self.S(n, cx)
        else:
            cx.emit('{'); cx.ind += 1; cx.scopes.append([])
            self.S(n, cx)
            cl = cx.scopes.pop()
            if n.get('kind') not in ('ReturnStmt', 'BreakStmt', 'ContinueStmt'):
                for s in reversed(cl): cx.emit(s)
            cx.ind -= 1; cx.emit('}')

    def loop_key(self, cx):
        k = cx.loopn; cx.loopn += 1
        key = f'{cx.cname}__loop{k}'
        self.loop_keys.append(key)
        return key, k

    def S_WhileStmt(self, n, cx):
        key, k = self.loop_key(cx)
        cond_n, body_n = n['inner'][0], n['inner'][1]
        if cx.cname in self.split and k in self.split[cx.cname] and cx.split_mode is None:
            if getattr(cx, 'skel', False):
                self.emit_summary_call(cx, key)
                return
            self.emit_split(n, cx, key, cond_n, body_n)
        cond = self.E(cond_n, cx)
        if cx.pre: raise Unsupported(f'loop condition needs hoisting in {cx.cname}')
        cx.emit(f'while ({cond})')
        cx.emit(f'LOOP_CONTRACT({key})')
        cx.loop_depth_scopes.append(len(cx.scopes))
        self.S_block(body_n, cx)
        cx.loop_depth_scopes.pop()

    def S_ForStmt(self, n, cx):
        key, k = self.loop_key(cx)
        init, condvar, cond, inc, body = n['inner']
        is_split = cx.cname in self.split and k in self.split[cx.cname] and cx.split_mode is None
        cx.emit('{'); cx.ind += 1; cx.scopes.append([])
        if init.get('kind'): self.S(init, cx)
        if is_split:
            # for(init; c; inc) body  ==  { init; while(c) { body; inc; } }: the init statement is part of the prologue
            cx.siblings_before = list(getattr(cx, 'siblings_before', [])) + ([init] if init.get('kind') else [])
            if getattr(cx, 'skel', False):
                self.emit_summary_call(cx, key)
                cl = cx.scopes.pop()
                for s_ in reversed(cl): cx.emit(s_)
                cx.ind -= 1; cx.emit('}')
                return
            self.emit_split(n, cx, key, cond if cond.get('kind') else None, body, inc if inc.get('kind') else None)
        c = self.E(cond, cx) if cond.get('kind') else '1'
        i = self.E(inc, cx) if inc.get('kind') else ''
        if cx.pre: raise Unsupported(f'for-loop header needs hoisting in {cx.cname}')
        cx.emit(f'for (; {c}; {i})')
        cx.emit(f'LOOP_CONTRACT({key})')
        cx.loop_depth_scopes.append(len(cx.scopes))
        self.S_block(body, cx)
        cx.loop_depth_scopes.pop()
        cl = cx.scopes.pop()
        for s_ in reversed(cl): cx.emit(s_)
        cx.ind -= 1; cx.emit('}')

    def S_CXXForRangeStmt(self, n, cx):
        init, rng, beg, end, cond, inc, loopvar, body = n['inner']
        if init.get('kind'): raise Unsupported(f'range-for with init statement in {cx.cname}')
        key, k = self.loop_key(cx)
        cx.emit('{'); cx.ind += 1; cx.scopes.append([])
        for d in (rng, beg, end): self.S(d, cx)
        c = self.E(cond, cx); i = self.E(inc, cx)
        if cx.pre: raise Unsupported(f'range-for header needs hoisting in {cx.cname}')
        cx.emit(f'for (; {c}; {i})')
        cx.emit(f'LOOP_CONTRACT({key})')
        cx.loop_depth_scopes.append(len(cx.scopes))
        cx.emit('{'); cx.ind += 1; cx.scopes.append([])
        self.S(loopvar, cx)
        self.S(body, cx)
        cl = cx.scopes.pop()
        for s_ in reversed(cl): cx.emit(s_)
        cx.ind -= 1; cx.emit('}')
        cx.loop_depth_scopes.pop()
        cl = cx.scopes.pop()
        for s_ in reversed(cl): cx.emit(s_)
        cx.ind -= 1; cx.emit('}')

    def S_BreakStmt(self, n, cx):
        self.exit_scopes(cx, cx.loop_depth_scopes[-1] if cx.loop_depth_scopes else getattr(cx, 'base', 0))
        if cx.split_mode is not None and not cx.loop_depth_scopes:
            cx.emit('return 1; /* break */'); return
        cx.emit('break;')

    def S_ContinueStmt(self, n, cx):
        self.exit_scopes(cx, cx.loop_depth_scopes[-1] if cx.loop_depth_scopes else getattr(cx, 'base', 0))
        if cx.split_mode is not None and not cx.loop_depth_scopes:
            if getattr(cx, 'for_inc', None) is not None:
                cx.emit(self.E(cx.for_inc, cx) + '; /* for-increment */')
            cx.emit('return 0; /* continue */'); return
        cx.emit('continue;')

    def exit_scopes(self, cx, down_to):
        for sc in reversed(cx.scopes[down_to:]):
            for s in reversed(sc): cx.emit(s)

    def S_ReturnStmt(self, n, cx):
        has_cleanup = any(sc for sc in cx.scopes)
        sm = cx.split_mode
        if n.get('inner'):
            rt = cx.ret
            if rt.ref:
                e = self.addr_of(n['inner'][0], cx)
            elif rt.cls == 'sp':
                e = self.sp_value(n['inner'][0], cx)
            else:
                e = self.E(n['inner'][0], cx)
            self.flush_pre(cx)
            if rt.cls == 'void' and not rt.ref:
                cx.emit(e + ';')
                self.exit_scopes(cx, 0)
                cx.emit('return 2;' if sm is not None else 'return;')
                return
            if sm is not None:
                cx.emit('{'); cx.emit(f'  *__retval = {e};')
                cx.ind += 1; self.exit_scopes(cx, 0); cx.ind -= 1
                cx.emit('  return 2; /* return */'); cx.emit('}')
            elif has_cleanup:
                cx.emit('{'); cx.emit(f'  {rt.decl("__r")} = {e};')
                cx.ind += 1; self.exit_scopes(cx, 0); cx.ind -= 1
                cx.emit('  return __r;'); cx.emit('}')
            else:
                cx.emit(f'return {e};')
        else:
            self.exit_scopes(cx, 0)
            cx.emit('return 2;' if sm is not None else 'return;')

    def split_params(self, cx):
        params = []; args = []
        if cx.self_expr == 'self' and cx.self_type:
            params.append(f'{cx.self_type} *self'); args.append('self')
        for vid, (cexpr, t) in cx.vars.items():
            nm = cexpr[2:-1] if cexpr.startswith('(*') else cexpr
            if not re.match(r'^\w+$', nm):
                raise Unsupported(f'split loop in {cx.cname}: captured variable {cexpr}')
            params.append(f'{t.c} *{nm}')
            args.append(nm if cexpr.startswith('(*') else f'&{nm}')
        if cx.ret is not None and cx.ret.cls != 'void':
            params.append(f'{cx.ret.c} *__retval'); args.append('&__retval')
        return params + self.ghost_decls(), args + self.ghost_args()

    def emit_summary_call(self, cx, key):
        params, args = self.split_params(cx)
        sname = key + '_summary'
        self.externs[sname] = f'int {sname}({", ".join(params)})'
        has_ret = cx.ret is not None and cx.ret.cls != 'void'
        cx.emit('{')
        if has_ret: cx.emit(f'  {cx.ret.c} __retval;')
        cx.emit(f'  int __rc = {sname}({", ".join(args)});')
        cx.emit('  if (__rc == 2)'); cx.emit('  {')
        cx.ind += 2; self.exit_scopes(cx, 0); cx.ind -= 2
        cx.emit('    return __retval;' if has_ret else '    return;')
        cx.emit('  }'); cx.emit('}')

    # ------------------------------------------------------------------ split loops
    def emit_split(self, n, cx, key, cond_n, body_n, inc_n=None):
        """emit `int <key>(self, T *local...)`: one iteration of the loop (condition + body).
        return 0 = iteration finished, go on; 3 = loop condition false (exit); 1 = break; 2 = return (*__retval set)"""
        bcx = Ctx(self, key, cx.self_expr)
        bcx.ret = cx.ret
        bcx.split_mode = {}
        params = []
        if cx.self_expr == 'self' and cx.self_type:
            params.append(f'{cx.self_type} *self')
        for vid, (cexpr, t) in cx.vars.items():
            nm = cexpr[2:-1] if cexpr.startswith('(*') else cexpr
            if not re.match(r'^\w+$', nm):
                raise Unsupported(f'split loop in {cx.cname}: captured variable {cexpr}')
            if t.ref:
                params.append(f'{t.c} *{nm}'); bcx.vars[vid] = (f'(*{nm})', t)
            else:
                params.append(f'{t.c} *{nm}'); bcx.vars[vid] = (f'(*{nm})', t)
            bcx.names.add(nm)
        if cx.ret is not None and cx.ret.cls != 'void':
            params.append(f'{cx.ret.c} *__retval')
        params += self.ghost_decls()
        if cond_n is not None:
            bcx.emit(f'if (!({self.E(cond_n, bcx)})) return 3; /* loop exit */')
        bcx.scopes = [list(x) for x in cx.scopes]
        bcx.base = len(bcx.scopes)
        bcx.for_inc = inc_n
        self.S_block(body_n, bcx)
        if inc_n is not None:
            bcx.emit(self.E(inc_n, bcx) + '; /* for-increment */')
        bcx.emit('return 0;')
        # prologue (statements of the enclosing block before the loop) and epilogue (after it), same signature
        for part, stmts in (('pre', getattr(cx, 'siblings_before', [])), ('epi', getattr(cx, 'siblings_after', []))):
            pcx = Ctx(self, f'{key}_{part}', cx.self_expr)
            pcx.ret = cx.ret; pcx.split_mode = {}
            pcx.vars = dict(bcx.vars); pcx.names = set(bcx.names)
            pcx.predecl = set(cx.vars.keys()) if part == 'pre' else set()
            if part == 'pre':
                # enclosing scopes are still open when the loop is reached: nothing is cleaned up here
                pcx.scopes = [list(x) for x in cx.scopes[:-1]] + [[]]
                for st in stmts: self.S(st, pcx)
            else:
                # the epilogue closes the enclosing block: inherits its pending cleanups (lock guards ...)
                pcx.scopes = [list(x) for x in cx.scopes]
                for st in stmts: self.S(st, pcx)
                if not stmts or stmts[-1].get('kind') != 'ReturnStmt':
                    for st_ in reversed(pcx.scopes[-1]): pcx.emit(st_)
                    if inc_n is not None or n.get('kind') == 'ForStmt':
                        # a for-statement has its own scope around the loop: the enclosing block closes as well
                        for st_ in reversed(pcx.scopes[-2] if len(pcx.scopes) > 1 else []): pcx.emit(st_)
            pcx.emit('return 0;')
            pproto = f'int {key}_{part}({", ".join(params)})'
            pcx.lines = self.add_reach(pcx.lines, f'{key}_{part}')
            self.funcs.append((f'{key}_{part}', pproto, pproto + f'\n#ifdef USE_CONTRACT_{key}_{part}\nCONTRACT({key}_{part})\n#endif\n{{\n' + '\n'.join(pcx.lines) + '\n}', f'{part} of split loop {key}'))
        locs = [re.sub(r'^.*\*', '', p_).strip() for p_ in params if '*' in p_ and not p_.strip().endswith('*self') and p_.split('*')[-1].strip() not in self.ghost_args()]
        self.local_macros[key] = locs
        proto = f'int {key}({", ".join(params)})'
        bcx.lines = self.add_reach(bcx.lines, key)
        text = proto + f'\n#ifdef USE_CONTRACT_{key}\nCONTRACT({key})\n#endif\n{{\n' + '\n'.join(bcx.lines) + '\n}'
        self.funcs.append((key, proto, text, f'one iteration of loop {key} (split form)'))
        self.loop_keys += [k2 for k2 in []]

    # ------------------------------------------------------------------ functions
    def enqueue(self, decl):
        if decl['id'] in self.done: return
        self.done.add(decl['id'])
        self.queue.append(decl)

    def emit_function(self, decl):
        oq0 = self.owner_of.get(decl['id'])
        self.cur_cname = (self.cname_of_record(oq0) + '_') if oq0 else self.free_fn_context(decl)
        cn = self.func_cname(decl)
        oq = self.owner_of.get(decl['id'])
        is_static = decl.get('storageClass') == 'static'
        cx = Ctx(self, cn)
        cx.targs = [a.get('type', {}).get('qualType', '') for a in decl.get('inner', []) if a.get('kind') == 'TemplateArgument' and a.get('type')]
        cx.self_type = self.cname_of_record(oq) if oq and not is_static else None
        selfp = f'{cx.self_type} *self' if cx.self_type else None
        body = [c for c in decl['inner'] if c.get('kind') == 'CompoundStmt'][0]
        self.emit_function_text(decl, cn, selfp, body, cx)
        if cn in self.split:
            # skeleton: the same function with each split loop replaced by a call to the loop's summary
            # (a bodiless function whose contract is what the prologue / iteration / epilogue obligations establish)
            sk = Ctx(self, cn)
            sk.self_type = cx.self_type; sk.skel = True
            self.emit_function_text(decl, cn + '__skel', selfp, body, sk)

    def free_fn_context(self, decl):
        """context prefix of a free function template instantiation: taken from its first template argument"""
        for a in decl.get('inner', []):
            if a.get('kind') == 'TemplateArgument':
                tq = strip_ns(a.get('type', {}).get('qualType', ''))
                for q, c in self.cnames.items():
                    if tq.startswith(q): return c + '_'
        return ''

    def emit_function_text(self, decl, cn, selfp, body, cx):
        if not hasattr(cx, 'self_type'): cx.self_type = None
        params = [selfp] if selfp else []
        forced = list(self.cfg.get('param_names', {}).get(cn.replace('__skel', ''), []))
        for p in self.params_of(decl):
            t = self.ctype(self.qt(p))
            if t.cls == 'empty': continue
            # contracts name parameters: a unit may fix their names by position (renaming or un-naming a parameter in the
            # source then does not break the contract)
            nm = cx.uniq((forced.pop(0) if forced else None) or p.get('name') or cx.tmp('p'))
            params.append(t.decl(nm))
            cx.vars[p['id']] = ((f'(*{nm})' if t.ref else nm), t)
        cx.ret = self.ret_ctype(decl)
        params += self.ghost_decls()
        for (t, n) in self.cfg.get('ghost_sig', []): cx.names.add(n)
        pre = []
        if decl['kind'] == 'CXXConstructorDecl':
            pre = self.ctor_prologue(decl, cx)
        cx.scopes = []
        for l in pre: cx.emit(l)
        self.S(body, cx)
        if decl['kind'] == 'CXXDestructorDecl':
            for l in self.dtor_epilogue(decl, cx): cx.emit(l)
        rts = cx.ret.decl('').strip()
        proto = f'{rts} {cn}({", ".join(params) or "void"})'
        cx.lines = self.add_reach(cx.lines, cn)
        text = proto + f'\n#ifdef USE_CONTRACT_{cn}\nCONTRACT({cn})\n#endif\n{{\n#ifdef FN_ENTRY_{cn}\n  FN_ENTRY_{cn};      /* ghost hook of the spec */\n#endif\n' + '\n'.join(cx.lines) + '\n}'
        loc = decl.get('loc', {})
        self.funcs.append((cn, proto, text, f'{decl.get("name")} @ line {loc.get("line", loc.get("expansionLoc", {}).get("line", "?"))}'))

    def add_reach(self, lines, cn):
        out = []; k = 0
        hook = cn in self.cfg.get('exit_hooks', [])       # ghost hook of the spec at every exit (void functions only)
        def exit_hook(ind):
            if hook: out.extend([f'#ifdef FN_EXIT_{cn}', f'{ind}FN_EXIT_{cn};      /* ghost hook of the spec */', '#endif'])
        for l in lines:
            st = l.strip()
            if st.startswith('return') and (st == 'return;' or st.startswith('return ')):
                ind = l[:len(l) - len(l.lstrip())]
                if hook and st != 'return;': raise Unsupported(f'exit hook on {cn}, which returns a value')
                exit_hook(ind)
                out.append(f'{ind}VACUITY_REACH({cn}, {k});'); k += 1
            out.append(l)
        last = [l.strip() for l in lines if l.strip() not in ('}', '{')]
        if not last or not last[-1].startswith('return'):
            exit_hook('  ')
            out.append(f'  VACUITY_REACH({cn}, {k});')
        return out

    def ctor_prologue(self, decl, cx):
        oq = self.owner_of.get(decl['id'])
        rec = self.records[oq]
        fields = [c for c in rec.get('inner', []) if c.get('kind') == 'FieldDecl']
        inits = [c for c in decl.get('inner', []) if c.get('kind') == 'CXXCtorInitializer']
        out = []
        byfield = {}
        for ci in inits:
            if 'delegatingInit' in ci:
                ce = self.skip(ci['inner'][0])
                t = self.ctype(oq)
                ctor = self.find_ctor(t, ce)
                self.enqueue(ctor)
                a = ['self'] + self.pass_args(self.params_of(ctor), ce.get('inner', []), cx) + self.ghost_args()
                out.append(f'{self.func_cname(ctor)}({", ".join(a)});')
                # [except.ctor]: once the target constructor has completed, an exception leaving the body of the DELEGATING
                # constructor invokes the object's destructor
                if self.cfg.get('exc_edges'):
                    try: dt = self.find_dtor(t)
                    except Unsupported: dt = None
                    if dt is not None:
                        self.enqueue(dt)
                        cx.unwind_actions.append(f'{self.func_cname(dt)}({", ".join(["self"] + self.ghost_args())});      /* delegating constructor: the object is complete, its destructor runs */')
                return out
            if 'baseInit' in ci:
                bt = self.ctype(ci['baseInit'].get('desugaredQualType') or ci['baseInit']['qualType'])
                ce = self.skip(ci['inner'][0])
                if bt.cls == 'record' and bt.c not in [self.cnames.get(q) for q in self.records]:
                    # opaque base class: constructor is an environment stub
                    cargs = ce.get('inner', [])
                    kind = 'ctor'
                    if len(cargs) == 1:
                        kind = 'ctor_move' if self.is_move_call(cargs[0]) is not None else 'ctor_copy'
                    a = [f'&self->base_{bt.c}'] + [self.addr_of(x, cx) for x in cargs]
                    cn_ = f'{bt.c}_{kind}'
                    if cn_ not in self.externs:
                        self.externs[cn_] = f'void {cn_}({", ".join([bt.c + " *self"] + [bt.c + " *a%d" % i for i in range(len(cargs))] + self.ghost_decls())})'
                    out.append(f'{cn_}({", ".join(a + self.ghost_args())});')
                elif bt.cls == 'record':
                    ctor = self.find_ctor(bt, ce); self.enqueue(ctor)
                    a = [f'&self->base_{bt.c}'] + self.pass_args(self.params_of(ctor), ce.get('inner', []), cx) + self.ghost_args()
                    out.extend(cx.pre); cx.pre = []
                    out.append(f'{self.func_cname(ctor)}({", ".join(a)});')
                elif bt.cls == 'wp':
                    out.append(f'self->base = {self.E(ci["inner"][0], cx)};')
                continue
            byfield[ci['anyInit']['id']] = ci
        for f in fields:
            t = self.ctype(self.qt(f)); nm = f['name']
            ci = byfield.get(f['id'])
            if ci is None:
                # default-initialisation
                if t.cls == 'sp': out.append(f'self->{nm} = NULL;')
                elif t.cls == 'wp': out.append(f'self->{nm} = ({t.c}){{NULL}};')
                elif t.cls == 'mutex': out.append(f'MUTEX_MEMBER_INIT(&self->{nm}, self, {nm});')
                elif t.cls in ('builtin', 'atomic', 'ptr', 'enum', 'fnptr', 'rawbuf'):
                    out.append(f'/* {nm}: no initialiser -> indeterminate (left nondeterministic) */')
                elif t.cls == 'list': out.append(f'WLIST_MEMBER_INIT(&self->{nm}, self, {nm});')
                elif t.cls == 'condvar': out.append(f'CONDVAR_INIT(&self->{nm});')
                elif t.cls == 'vector': out.append(f'WVEC_INIT(&self->{nm});')
                elif t.cls == 'map': out.append(f'WMAP_MEMBER_INIT(&self->{nm}, self, {nm});')
                else: raise Unsupported(f'default-initialisation of field {nm} : {t} in {cx.cname}')
                continue
            e = ci['inner'][0]; s = self.skip(e)
            if t.ref:
                out.append(f'self->{nm} = {self.addr_of(e, cx)};'); continue
            if t.cls == 'mutex':
                out.append(f'MUTEX_MEMBER_INIT(&self->{nm}, self, {nm});'); continue
            if t.cls == 'list':
                if s.get('kind') == 'CXXConstructExpr' and not s.get('inner'): out.append(f'WLIST_MEMBER_INIT(&self->{nm}, self, {nm});'); continue
                raise Unsupported(f'list member {nm} is not default-constructed in {cx.cname}')
            if t.cls == 'condvar':
                out.append(f'CONDVAR_INIT(&self->{nm});'); continue
            if t.cls == 'vector':
                if s.get('kind') == 'CXXConstructExpr' and not s.get('inner'): out.append(f'WVEC_INIT(&self->{nm});'); continue
                if s.get('kind') == 'CXXConstructExpr' and len(s['inner']) == 1:
                    mv = self.is_move_call(s['inner'][0])
                    if mv is not None: out.append(f'WVEC_CTOR_MOVE(&self->{nm}, {self.addr_of(mv, cx)});'); continue
                    out.append(f'WVEC_CTOR_COPY(&self->{nm}, {self.addr_of(s["inner"][0], cx)});'); continue
                raise Unsupported(f'vector member {nm} construction in {cx.cname}')
            if t.cls == 'map':
                if s.get('kind') == 'CXXConstructExpr' and not s.get('inner'): out.append(f'WMAP_MEMBER_INIT(&self->{nm}, self, {nm});'); continue
                if s.get('kind') == 'CXXConstructExpr' and len(s['inner']) == 1:
                    mv = self.is_move_call(s['inner'][0])
                    if mv is not None: out.append(f'WMAP_MEMBER_INIT(&self->{nm}, self, {nm}); WMAP_CTOR_MOVE(&self->{nm}, {self.addr_of(mv, cx)});'); continue
                    out.append(f'WMAP_MEMBER_INIT(&self->{nm}, self, {nm}); WMAP_CTOR_COPY(&self->{nm}, {self.addr_of(s["inner"][0], cx)});'); continue
                raise Unsupported(f'map member {nm} construction in {cx.cname}')
            if t.cls == 'rawbuf':
                out.append(f'/* {nm}: raw storage, value-initialised bytes carry no object */'); continue
            if t.cls == 'atomic':
                if s.get('kind') == 'CXXConstructExpr':
                    if s.get('inner'): out.append(f'ATOMIC_INIT(&self->{nm}, {self.E(s["inner"][0], cx)});')
                    else: out.append(f'/* {nm}: default-initialised atomic -> indeterminate before C++20 (left nondeterministic) */')
                else: out.append(f'ATOMIC_INIT(&self->{nm}, {self.E(e, cx)});')
                continue
            if t.cls == 'record' and t.c not in self.cfg.get('value_records', []):
                if s.get('kind') != 'CXXConstructExpr': raise Unsupported(f'record member init shape for {nm} in {cx.cname}')
                ctor = self.find_ctor(t, s); self.enqueue(ctor)
                a = [f'&self->{nm}'] + self.pass_args(self.params_of(ctor), s.get('inner', []), cx) + self.ghost_args()
                out.append(f'{self.func_cname(ctor)}({", ".join(a)});')
                continue
            val = self.sp_value(e, cx) if t.cls == 'sp' else self.E(e, cx)
            out.append(f'self->{nm} = {val};')
        return out

    def dtor_epilogue(self, decl, cx):
        oq = self.owner_of.get(decl['id'])
        rec = self.records[oq]
        out = []
        for f in reversed([c for c in rec.get('inner', []) if c.get('kind') == 'FieldDecl']):
            t = self.ctype(self.qt(f))
            if t.cls == 'record' and not t.ref and t.c not in self.cfg.get('value_records', []):
                dt = self.find_dtor(t)
                if dt is not None:
                    self.enqueue(dt); fn_ = f['name']; out.append(f'{self.func_cname(dt)}({", ".join(["&self->" + fn_] + self.ghost_args())});')
            elif t.cls == 'sp' and not t.ref:
                out.append(f'SP_RELEASE(&self->{f["name"]});')
            elif t.cls == 'list' and not t.ref:
                out.append(f'WLIST_DTOR(&self->{f["name"]});')
            elif t.cls == 'vector' and not t.ref:
                out.append(f'WVEC_DTOR(&self->{f["name"]});')
            elif t.cls == 'map' and not t.ref:
                out.append(f'WMAP_DTOR(&self->{f["name"]});')
        return out

    # ------------------------------------------------------------------ driver
    def run(self, roots, survey=False):
        for d in roots: self.enqueue(d)
        self.errors = []
        while self.queue:
            d = self.queue.pop(0)
            if survey:
                try:
                    self.emit_function(d)
                except Unsupported as e:
                    self.errors.append(f'{d.get("name")}: {e}')
            else:
                self.emit_function(d)

    def output(self, header_includes):
        o = []
        o.append('/* GENERATED by extract/cxx2c.py from the clang AST of /repo/include -- do not edit */')
        for h in header_includes: o.append(f'#include "{h}"')
        for cn in self.struct_order:
            o.append(f'typedef struct {cn} {cn};')
        o.append('#include "ghost_fields.h"')
        for cn in self.struct_order:
            o.append(f'#ifndef GHOST_FIELDS_{cn}\n#define GHOST_FIELDS_{cn}\n#endif')
            o.append(self.struct_text[cn])
        o.append('#include "prims_post.h"')
        o.append('#define CONTRACT(f) CONTRACT_##f')
        o.append('#define LOOP_CONTRACT(k) LOOP_CONTRACT_##k')
        for cn in sorted(set(list(self.externs) + [f[0] for f in self.funcs])):
            o.append(f'#ifndef CONTRACT_{cn}\n#define CONTRACT_{cn}\n#endif')
        for k in self.loop_keys:
            o.append(f'#ifndef LOOP_CONTRACT_{k}\n#define LOOP_CONTRACT_{k}\n#endif')
        for k, locs in self.local_macros.items():
            # loop-carried locals of a split loop, as the pieces receive them: contracts can stay independent of their names
            o.append(f'#define LOCALS_{k} ' + ', '.join('*' + l for l in locs))
            o.append(f'#define FRESH_LOCALS_{k} (' + ' && '.join(f'__CPROVER_is_fresh({l}, sizeof(*{l}))' for l in locs) + ')')
        for cn, proto in sorted(self.externs.items()):
            o.append(f'{proto}\n#ifdef USE_CONTRACT_{cn}\nCONTRACT({cn})\n#endif\n;')
        for cn, proto, text, src in self.funcs:
            o.append(f'{proto};')
        for cn, proto, text, src in self.funcs:
            o.append(f'/* ---- {src} ---- */\n{text}\n')
        return '\n'.join(o) + '\n'
