"""unit configurations for the extractor"""
CLB = 'CallbackListBase<void (VArg), Pol>'
UNITS = {
  'callbacklist': dict(
    tu='inst/callbacklist.cpp', filter='CallbackListBase', std='c++11',
    root=('ClassTemplateSpecializationDecl', 'CallbackListBase'), root_q=CLB,
    names={CLB: 'CL', CLB + '::Node': 'Node', 'VArg': 'VArg', 'UserEach': 'UserEach', 'UserEachIf': 'UserEachIf'},
    value_records=['VArg'],
    opaque_records=['UserEach', 'UserEachIf', 'VArg'],
    skip_records=['Handle_'],
    type_rules=[(r'::Handle_?$', 'wp', 'Handle'), (r'^UserCallback$', 'function', 'Callback')],
    env_calls={'canContinueInvoking': 'canContinueInvoking'},
    ghost_sig=[('Node *', 'gK'), ('Node *', 'gW')],
    exc_edges=True,
    field_hooks={'Node.counter': 'NODE_SET_counter'},
    read_hooks={'Node.counter': 'NODE_GET_counter'},
    split_loops={'CL_doForEachIf__forEachIf__UserEachIf__lambda0': [0], 'CL_doForEachIf__forEach__UserEach__lambda0': [0],
                 'CL_doForEachIf__forEachIf__call__lambda0__lambda0': [0], 'CL_ownsHandle': [0], 'CL_doFreeAllNodes': [0],
                 'CL_getNextCounter': [0], 'CL_cloneFrom': [0]},
  ),
}

QB = 'EventQueueBase<int, void (VArg), Pol>'
QE = QB + '::QueuedEvent_'
UNITS['queue'] = dict(
    tu='inst/queue.cpp', filter=['EventQueueBase', 'BufferedItem', 'CounterGuard'], std='c++11',
    root=('ClassTemplateSpecializationDecl', 'EventQueueBase'), root_q=QB,
    extra_roots=[('ClassTemplateSpecializationDecl', 'BufferedItem', 'BufferedItem<' + QE + '>'),
                 ('ClassTemplateSpecializationDecl', 'CounterGuard', 'CounterGuard<std::atomic<int>>')],
    names={QB: 'Q', QE: 'QueuedEvent', QB + '::DisableQueueNotify': 'DisableQueueNotify', 'BufferedItem<' + QE + '>': 'Slot',
           'CounterGuard<std::atomic<int>>': 'CounterGuard', 'VArg': 'VArg', 'UserPred': 'UserPred', 'UserPred0': 'UserPred0'},
    value_records=['VArg', 'QueuedEvent', 'ArgsTuple'],
    opaque_records=['VArg', 'UserPred', 'UserPred0'],
    ghost_sig=[],
    skip_functions=['getEvent', 'getArgument'],
    env_calls={'getEvent': 'Pol_getEvent'},
    tuple_ctor=['ArgsTuple'],
    fn_tag_default='QueuedEvent',
    exc_edges=True,
    atomic_field_hooks={'Q.queueNotifyCounter': 'NOTIFYCNT'},
    type_rules=[
      (r'^std::(_V2::)?condition_variable(_any)?$|^SingleThreading::ConditionVariable$', 'condvar', 'CondVar'),
      (r'^std::(__cxx11::)?list<', 'list', 'WList'),
      (r'^std::_List_(const_)?iterator<', 'listit', 'WIt'),
      (r'^std::tuple<VArg>$', 'record', 'ArgsTuple'),
      (r'^std::array<char, ', 'rawbuf', 'QueuedEvent'),
      (r'__alloc_traits<.*BufferedItem<.*>::value_type$', 'record', 'Slot'),
      (r'^void \(\*\)\(void \*\)$|DtorFunc$', 'fnptr', 'DtorTag'),
      (r'IndexSequence<', 'empty', 'int'),
      (r'^std::chrono::duration<', 'opaque', 'Duration'),
      (r'^std::unique_lock<', 'unique_lock', 'UniqueLock'),
      (r'^EventDispatcherBase<', 'record', 'DispatcherBase'),
      (r'^std::decay<typename super::Event>::type$|::Event$', 'builtin', 'int'),      # the event type of this instantiation, however a signature spells it
    ],
)

# the same queue under ArgumentPassingExcludeEvent (default getEvent): only the other enqueue overload is proved here;
# the spec is unit queue's (spec/eventpp/queuex is a link to it)
import copy as _copy
UNITS['queuex'] = _copy.deepcopy(UNITS['queue'])
UNITS['queuex'].update(tu='inst/queuex.cpp')     # getEvent: the library's default (returns its first argument), stub Pol_getEvent2
UNITS['queuex']['names'] = {k: v for k, v in UNITS['queue']['names'].items() if v not in ('UserPred', 'UserPred0')}

OQ = 'OrderedQueueList<BufferedItem<QEvent>, UserCompare>'
OQD = 'OrderedQueueList<BufferedItem<QEvent>, OrderedQueueListCompare>'
UNITS['ordered'] = dict(
    tu='inst/ordered.cpp', filter=['OrderedQueueList', 'BufferedItem'], std='c++11',
    root=('ClassTemplateSpecializationDecl', 'OrderedQueueList'), root_q=OQ,
    extra_roots=[('ClassTemplateSpecializationDecl', 'OrderedQueueList', OQD),
                 ('ClassTemplateSpecializationDecl', 'BufferedItem', 'BufferedItem<QEvent>'),
                 ('CXXRecordDecl', 'OrderedQueueListCompare', 'OrderedQueueListCompare')],
    names={OQ: 'OQL', OQD: 'OQLD', 'OrderedQueueList<BufferedItem<QEvent>>': 'OQLD', 'BufferedItem<QEvent>': 'Slot', 'OrderedQueueListCompare': 'DefaultCompare', 'QEvent': 'QEvent', 'UserCompare': 'UserCompare', 'VArg': 'VArg'},
    value_records=['VArg', 'QEvent', 'UserCompare', 'DefaultCompare'],
    opaque_records=['VArg', 'UserCompare', 'QEvent'],
    ghost_sig=[], fn_tag_default='QEvent', alt_names={OQD: ['OrderedQueueList<BufferedItem<QEvent>>']},
    param_names={'OQL_splice': ['pos', 'other'], 'OQLD_splice': ['pos', 'other'], 'OQL_splice_2': ['pos', 'other', 'it'], 'OQLD_splice_2': ['pos', 'other', 'it']},
    type_rules=[
      (r'^std::(__cxx11::)?list<', 'list', 'WList'),
      (r'^std::_List_(const_)?iterator<', 'listit', 'WIt'),
      (r'^std::array<char, ', 'rawbuf', 'QEvent'),
      (r'^void \(\*(const)?\)\(void \*\)$|DtorFunc$', 'fnptr', 'DtorTag'),
    ],
)

SRC = 'ScopedRemover<CallbackList<void (VArg), Pol>, void>'
SRD = 'ScopedRemover<EventDispatcher<int, void (VArg), Pol>, void>'
UNITS['scopedremover'] = dict(
    tu='inst/scopedremover.cpp', filter=['ScopedRemover'], std='c++11',
    root=('ClassTemplateSpecializationDecl', 'ScopedRemover'), root_q=SRC,
    extra_roots=[('ClassTemplateSpecializationDecl', 'ScopedRemover', SRD)],
    free_functions=['removeHandleFromScopedRemoverItemList'],
    names={SRC: 'SRC', SRD: 'SRD', SRC + '::Item': 'ItemC', SRD + '::Item': 'ItemD', 'VArg': 'VArg',
           'ScopedRemover<CallbackList<void (VArg), Pol>>': 'SRC', 'ScopedRemover<EventDispatcher<int, void (VArg), Pol>>': 'SRD',
           'ScopedRemover<CallbackList<void (VArg), Pol>>::Item': 'ItemC', 'ScopedRemover<EventDispatcher<int, void (VArg), Pol>>::Item': 'ItemD'},
    alt_names={SRC: ['ScopedRemover<CallbackList<void (VArg), Pol>>'], SRD: ['ScopedRemover<EventDispatcher<int, void (VArg), Pol>>']},
    value_records=['VArg', 'ItemC', 'ItemD'],
    opaque_records=['VArg'],
    ghost_sig=[],
    type_rules=[
      (r'^CallbackList<void \(VArg\), Pol>$', 'record', 'CLT'),
      (r'^EventDispatcher<int, void \(VArg\), Pol>$', 'record', 'EDT'),
      (r'Handle_?$', 'wp', 'Handle'),
      (r'^CallbackListBase<void \(VArg\), Pol>::Node$', 'record', 'Node'),
      (r'^CallbackListBase<void \(VArg\), Pol>$', 'record', 'CLT'),
      (r'^EventDispatcherBase<', 'record', 'EDT'),
      (r'::Event$', 'builtin', 'int'),
      (r'^std::vector<Item>$', 'vector', 'WVecC', 'SRC_'),
      (r'^std::vector<Item>$', 'vector', 'WVecD', 'SRD_'),
      (r'^std::vector<.*ScopedRemover<CallbackList.*Item', 'vector', 'WVecC'),
      (r'^std::vector<.*ScopedRemover<EventDispatcher.*Item', 'vector', 'WVecD'),
      (r'^__gnu_cxx::__normal_iterator<.*ScopedRemover<CallbackList.*Item', 'vecit', 'WVItC'),
      (r'^__gnu_cxx::__normal_iterator<.*ScopedRemover<EventDispatcher.*Item', 'vecit', 'WVItD'),
      (r'^std::unique_lock<', 'unique_lock', 'UniqueLock'),
      (r'^std::function<', 'function', 'Callback'),
    ],
)

CRC = 'CounterRemover<CallbackList<void (VArg), Pol>, void>'
CRD = 'CounterRemover<EventDispatcher<int, void (VArg), Pol>, void>'
NRC = 'ConditionalRemover<CallbackList<void (VArg), Pol>, void>'
NRD = 'ConditionalRemover<EventDispatcher<int, void (VArg), Pol>, void>'
UNITS['removers'] = dict(
    tu='inst/removers.cpp', filter=['Remover'], std='c++11',
    root=('ClassTemplateSpecializationDecl', 'CounterRemover'), root_q=CRC,
    extra_roots=[('ClassTemplateSpecializationDecl', 'CounterRemover', CRD),
                 ('ClassTemplateSpecializationDecl', 'ConditionalRemover', NRC),
                 ('ClassTemplateSpecializationDecl', 'ConditionalRemover', NRD)],
    names={CRC: 'CRC', CRD: 'CRD', NRC: 'NRC', NRD: 'NRD',
           CRC + '::Wrapper<UserL>': 'CRCW', CRC + '::Wrapper<UserL>::Data': 'CRCData',
           CRD + '::Wrapper<UserL>': 'CRDW', CRD + '::Wrapper<UserL>::Data': 'CRDData',
           NRC + '::ItemByCondition<UserL, UserCond>': 'NRCW', NRC + '::ItemByCondition<UserL, UserCond>::Data': 'NRCData',
           NRC + '::ItemByCondition<UserL, UserCond0>': 'NRCW0', NRC + '::ItemByCondition<UserL, UserCond0>::Data': 'NRCData0',
           NRD + '::ItemByCondition<UserL, UserCond>': 'NRDW', NRD + '::ItemByCondition<UserL, UserCond>::Data': 'NRDData',
           NRD + '::ItemByCondition<UserL, UserCond0>': 'NRDW0', NRD + '::ItemByCondition<UserL, UserCond0>::Data': 'NRDData0',
           'VArg': 'VArg', 'UserL': 'UserL', 'UserCond': 'UserCond', 'UserCond0': 'UserCond0'},
    value_records=['VArg', 'UserL', 'UserCond', 'UserCond0', 'CRCData', 'CRDData', 'NRCData', 'NRCData0', 'NRDData', 'NRDData0', 'CRCW', 'CRDW', 'NRCW', 'NRCW0', 'NRDW', 'NRDW0'],
    opaque_records=['VArg', 'UserL', 'UserCond', 'UserCond0'],
    ghost_sig=[],
    type_subst=[('CounterRemover<CallbackList<void (VArg), Pol>>', CRC), ('CounterRemover<EventDispatcher<int, void (VArg), Pol>>', CRD),
                ('ConditionalRemover<CallbackList<void (VArg), Pol>>', NRC), ('ConditionalRemover<EventDispatcher<int, void (VArg), Pol>>', NRD)],
    type_rules=[
      (r'^CallbackList<void \(VArg\), Pol>$', 'record', 'CLT'),
      (r'^CallbackListBase<void \(VArg\), Pol>$', 'record', 'CLT'),
      (r'^EventDispatcher<int, void \(VArg\), Pol>$', 'record', 'EDT'),
      (r'^EventDispatcherBase<', 'record', 'EDT'),
      (r'::Event$', 'builtin', 'int'),
      (r'Handle_?$', 'wp', 'Handle'),
      (r'^std::function<', 'function', 'Callback'),
    ],
)

IDE = 'AnyId<std::hash, EmptyAnyStorage>'
IDS = 'AnyId<std::hash, Stor>'
IDI = 'AnyId<std::hash, StorI>'
UNITS['anyid'] = dict(
    tu='inst/anyid.cpp', filter=['eventpp::operator', 'AnyId', 'compare', 'MakeHash', 'std::hash', 'anyid_internal_::Has'], std='c++11',
    root=('ClassTemplateSpecializationDecl', 'AnyId'), root_q=IDE,
    extra_roots=[('ClassTemplateSpecializationDecl', 'AnyId', IDS), ('ClassTemplateSpecializationDecl', 'AnyId', IDI), ('ClassTemplateSpecializationDecl', 'hash', 'std::hash<' + IDI + '>'),
                 ('ClassTemplateSpecializationDecl', 'hash', 'std::hash<AnyId<>>'), ('ClassTemplateSpecializationDecl', 'hash', 'std::hash<' + IDS + '>'),
                 ('ClassTemplateSpecializationDecl', 'MakeHash', 'anyid_internal_::MakeHash<unsigned long, void>')],
    free_functions=['operator==', 'operator<', 'compareEqual', 'compareLessThan'],
    names={IDE: 'IdE', IDS: 'IdS', IDI: 'IdI', 'StorI': 'StorI', 'std::hash<' + IDI + '>': 'HashI', 'Stor': 'Stor', 'AnyId<>': 'IdE', 'EmptyAnyStorage': 'EmptyStorage', 'std::hash<AnyId<>>': 'HashE', 'std::hash<' + IDE + '>': 'HashE', 'std::hash<' + IDS + '>': 'HashS',
           'anyid_internal_::MakeHash<unsigned long, void>': 'MakeHash', 'anyid_internal_::MakeHash<unsigned long>': 'MakeHash'},
    type_subst=[('AnyId<hash, EmptyAnyStorage>', IDE), ('AnyId<hash, StorI>', IDI), ('AnyId<hash, Stor>', IDS)],
    value_records=['Stor', 'StorI', 'EmptyStorage', 'MakeHash'],
    opaque_records=['Stor', 'StorI', 'EmptyStorage'],
    ghost_sig=[],
    type_rules=[(r'DigestType$', 'builtin', 'unsigned long'), (r'^std::size_t$|^size_t$', 'builtin', 'unsigned long')],
)

EDB = 'EventDispatcherBase<int, void (VArg), Pol, MixinFilter<EventDispatcherBase<int, void (VArg), Pol, void>>>'
EDB0 = 'EventDispatcherBase<int, void (VArg), Pol, void>'
EDBX = 'EventDispatcherBase<int, void (VArg), PolX, void>'
EDBY = 'EventDispatcherBase<int, void (VArg), PolY, void>'
MF = 'MixinFilter<' + EDB0 + '>'
UNITS['dispatcher'] = dict(
    tu='inst/dispatcher.cpp', # filters of 16..23 characters each: same allocation pattern in clang, so node ids agree across the dumps
    filter=['EventDispatcherBase', 'eventpp::MixinFilter', '_::ForEachMixins', '_::DefaultGetEvent'], std='c++11',
    root=('ClassTemplateSpecializationDecl', 'EventDispatcherBase'), root_q=EDB0,
    extra_roots=[('ClassTemplateSpecializationDecl', 'EventDispatcherBase', EDBX), ('ClassTemplateSpecializationDecl', 'EventDispatcherBase', EDBY),
                 ('ClassTemplateSpecializationDecl', 'MixinFilter', MF)],
    names={EDB0: 'ED', EDBX: 'EDX', EDBY: 'EDY', MF: 'MF', 'VArg': 'VArg', 'UserEach': 'UserEach', 'UserEachIf': 'UserEachIf'},
    value_records=['VArg'],
    opaque_records=['VArg', 'UserEach', 'UserEachIf', 'CLT'],
    ghost_sig=[],
    env_calls={'getEvent': 'Pol_getEvent'},
    type_resubst=[(r'(typename )?std::conditional<std::is_const<.*>::value, const CallbackList_ \*, CallbackList_ \*>::type', 'CallbackList<void (VArg), Pol> *')],
    type_rules=[
      (r'Handle_?$', 'wp', 'Handle'),
      (r'^CallbackList<', 'record', 'CLT'),
      (r'^CallbackListBase<', 'record', 'CLT'),
      (r'^std::function<', 'function', 'Callback'),
      (r'^std::(unordered_)?map<', 'map', 'WMap'),
      (r'^std::_Rb_tree_(const_)?iterator<|^std::__detail::_Node_(const_)?iterator(_base)?<', 'mapit', 'WMIt'),
      (r'^std::pair<const int, CallbackList<', 'record', 'WPair'),
    ],
)

ADQ = 'AnyData<16>'
UNITS['anydata'] = dict(
    tu='inst/anydata.cpp', filter=['AnyData', 'LargeData', 'anydata_internal_::func', 'anydata_internal_::doFunc', 'anydata_internal_::doGet', 'anydata_internal_::get'], std='c++11',
    root=('ClassTemplateSpecializationDecl', 'AnyData'), root_q=ADQ,
    extra_roots=[('CXXRecordDecl', 'LargeData', 'anydata_internal_::LargeData')],
    free_functions=['funcFreeObject', 'funcDeleteObject', 'funcMoveConstruct', 'doFuncMoveConstruct', 'doGetAnyDataFunctions', 'getAnyDataFunctions'],
    names={ADQ: 'AD', 'anydata_internal_::LargeData': 'LD', 'LargeData': 'LD', 'AnyData::LargeData': 'LD', 'Small': 'Small', 'Big': 'Big', 'anydata_internal_::AnyDataFunctions': 'ADF', 'AnyDataFunctions': 'ADF'},
    value_records=['Small', 'Big'],
    opaque_records=['Small', 'Big'],
    ghost_sig=[],
    type_subst=[('AnyData::LargeData', 'anydata_internal_::LargeData')],
    fnptr_by_member=True,
    layout_records={'AnyData<16>': 'AD'},
    type_resubst=[(r'^(typename )?std::enable_if<.*>::type \*$', 'SfinaeTag')],
    type_rules=[
      (r'^SfinaeTag$', 'empty', 'int'),
      (r'^std::array<(unsigned char|std::uint8_t|uint8_t), ', 'rawbuf', 'RawBuf'),
      (r'^void \(\*(const)?\)\(void \*\)$', 'fnptr', 'FnTag'),
      (r'^void \(\*(const)?\)\(void \*, void \*\)$', 'fnptr', 'FnTag'),
      (r'^std::size_t$|^size_t$', 'builtin', 'unsigned long'),
    ],
)

UNITS['heterselect'] = dict(tu='inst/heterselect.cpp', filter='Facts', std='c++11', facts_only=True)

HQB = 'HeterEventQueueBase<int, HeterTuple<void (VArg), void (WArg)>, Pol>'
UNITS['hqueue'] = dict(
    tu='inst/hqueue.cpp', filter=['HeterEventQueueBase', 'internal_::BufferedUnion', 'internal_::CounterGuard', 'FindPrototypeByCallable', 'FindPrototypeByArgsFrom'], std='c++11',
    root=('ClassTemplateSpecializationDecl', 'HeterEventQueueBase'), root_q=HQB,
    extra_roots=[('ClassTemplateSpecializationDecl', 'BufferedUnion', 'BufferedUnion<24>'),
                 ('ClassTemplateSpecializationDecl', 'CounterGuard', 'CounterGuard<std::atomic<int>>')],
    names={HQB: 'HQ', HQB + '::QueuedItemBase': 'ItemBase', HQB + '::QueuedItem<std::tuple<VArg>>': 'ItemV', HQB + '::QueuedItem<std::tuple<WArg>>': 'ItemW',
           'BufferedUnion<24>': 'Slot', 'CounterGuard<std::atomic<int>>': 'CounterGuard', 'VArg': 'VArg', 'WArg': 'WArg', 'PredV': 'PredV', 'PredW': 'PredW'},
    value_records=['VArg', 'WArg', 'TupV', 'TupW'],
    opaque_records=['VArg', 'WArg', 'PredV', 'PredW'],
    ghost_sig=[],
    skip_functions=['getEvent'],
    env_calls={'getEvent': 'Pol_getEvent'},
    tuple_ctor=['TupV', 'TupW'],
    exc_edges=True, exit_hooks=['ItemV_ctor_move', 'ItemW_ctor_move'], equal_filters=True,
    type_resubst=[(r'QueuedItem<typename FindPrototypeByArgs<.*, VArg( &)?>::ArgsTuple>', HQB + '::QueuedItem<std::tuple<VArg>>'),
                  (r'QueuedItem<typename FindPrototypeByArgs<.*, WArg( &)?>::ArgsTuple>', HQB + '::QueuedItem<std::tuple<WArg>>')],
    fn_rename=[(r'^HQ_doProcessIf__eventpp_internal__FindPrototypeByCallable_eventpp_HeterTuple_void_VArg_void_WArg_(Pred[VW])_Pred[VW]$', r'HQ_doProcessIf__P0_\1'),
               (r'^HQ_doProcessIf__eventpp_internal__FindPrototypeByCallableFromIndex_(\d)_eventpp_HeterTuple_void_VArg_void_WArg_(Pred[VW])_eventpp_internal__FindPrototypeDefaultArgTransformer_2_Pred[VW]$', r'HQ_doProcessIf__P\1_\2'),
               (r'^HQ_doProcessIf__eventpp_internal__FindPrototypeByCallableFromIndex_\d_eventpp_HeterTuple_.*_(Pred[VW])$', r'HQ_doProcessIf__next_\1'),
               (r'^HQ_doEnqueue__eventpp_ArgumentPassingExcludeEvent_int', 'HQ_doEnqueue'),
               (r'^HQ_(doDispatchItem|doDispatchQueuedItem)__eventpp_internal__FindPrototypeByArgs_eventpp_HeterTuple_void_VArg_void_WArg_([VW])Arg.*$', r'HQ_\1__\2'), (r'^HQ_enqueue__int_', 'HQ_enqueue_')],
    type_rules=[
      (r'__alloc_traits<.*BufferedUnion<.*>::value_type$', 'record', 'Slot'),
      (r'^std::condition_variable$', 'condvar', 'CondVar'),
      (r'^std::(__cxx11::)?list<', 'list', 'WList'),
      (r'^std::_List_(const_)?iterator<', 'listit', 'WIt'),
      (r'^std::tuple<VArg>$', 'record', 'TupV'),
      (r'^std::tuple<WArg>$', 'record', 'TupW'),
      (r'^std::array<char, ', 'rawbuf', 'RawBuf'),
      (r'^void \(\*(const)?\)\(void \*\)$|DtorFunc$', 'fnptr', 'DtorTag'),
      (r'ItemDispatcher$|^void \(\*(const)?\)\(const HeterEventQueueBase', 'fnptr', 'DispTag'),
      (r'IndexSequence<', 'empty', 'int'),
      (r'^std::chrono::duration<', 'opaque', 'Duration'),
      (r'^std::unique_lock<', 'unique_lock', 'UniqueLock'),
      (r'^HeterEventDispatcherBase<', 'record', 'DispatcherBase'),
    ],
)

UNITS['eventutil'] = dict(
    tu='inst/eventutil.cpp', filter=['eventpp::removeListener', 'eventpp::hasListener', 'eventpp::hasAnyListener'], std='c++11',
    facts_only=False, no_root=True,
    free_functions=['removeListener', 'hasListener', 'hasAnyListener'],
    names={'VArg': 'VArg'},
    value_records=['VArg'],
    opaque_records=['VArg', 'CLT', 'EDT'],
    ghost_sig=[],
    type_rules=[
      (r'Handle_?$', 'wp', 'Handle'),
      (r'::Event$', 'builtin', 'int'),
      (r'^FnPtr$|^void \(\*(const)?\)\(VArg\)$|::Callback_?$', 'builtin', 'FnPtr'),
      (r'^CallbackList<', 'record', 'CLT'),
      (r'^CallbackListBase<', 'record', 'CLT'),
      (r'^EventDispatcher<', 'record', 'EDT'),
      (r'^EventDispatcherBase<', 'record', 'EDT'),
    ],
)

# HeterEventQueue under ArgumentPassingIncludeEvent with a user getEvent that reads through a const reference: only the
# include-event doEnqueue overload is proved here, for an lvalue and for an rvalue first argument; the spec is unit
# hqueue's (spec/eventpp/hqueuei is a link to it), parametrised by -DUNIT_HQUEUEI
UNITS['hqueuei'] = _copy.deepcopy(UNITS['hqueue'])
UNITS['hqueuei'].update(tu='inst/hqueuei.cpp', env_overloads=True, rename_numbered=True)
UNITS['hqueuei']['fn_rename'] = [
    (r'^HQ_doEnqueue__eventpp_ArgumentPassingIncludeEvent_([VW])Arg$', r'HQ_doEnqueueI__\1'),      # the lvalue call comes first in the TU, the rvalue call is numbered _2
] + UNITS['hqueue']['fn_rename']

# HeterEventDispatcher: dispatch / doDispatch / directDispatch in both argument-passing forms; the per-event
# HeterCallbackList (HCLT) and the event map lookup result are environment
HDI = 'HeterEventDispatcherBase<int, HeterTuple<void (VArg), void (WArg)>, PolI, void>'
HDX = 'HeterEventDispatcherBase<int, HeterTuple<void (VArg), void (WArg)>, PolX, void>'
UNITS['hdispatcher'] = dict(
    tu='inst/hdispatcher.cpp', filter=['HeterEventDispatcherBas', '_::ForEachMixins', '_::DefaultGetEvent'], std='c++11',
    root=('ClassTemplateSpecializationDecl', 'HeterEventDispatcherBase'), root_q=HDI,
    extra_roots=[('ClassTemplateSpecializationDecl', 'HeterEventDispatcherBase', HDX)],
    names={HDI: 'HDI', HDX: 'HDX', 'VArg': 'VArg', 'WArg': 'WArg', 'CbV': 'CbV', 'CbW': 'CbW'},
    fn_rename=[(r'^HD([IX])_doDispatch__eventpp_ArgumentPassing(In|Ex)cludeEvent_(int|[VW])(Arg)?$', r'HD\1_doDispatch__\3'),      # lvalue call first in the TU, then the rvalue call: _2
               (r'^getEvent__int$', 'DefaultGetEvent_getEvent'), (r'^forEach$', 'NoMixins_forEach')],
    value_records=['VArg', 'WArg'],
    opaque_records=['VArg', 'WArg', 'HCLT', 'CbV', 'CbW'],
    ghost_sig=[], env_overloads=True, rename_numbered=True, static_methods_by_type=True, equal_filters=True,
    type_resubst=[(r'(typename )?std::conditional<std::is_const<.*>::value, const CallbackList_ \*, CallbackList_ \*>::type', 'HeterCallbackList<HeterTuple<void (VArg), void (WArg)>, Pol> *')],
    env_calls={'getEvent': 'Pol_getEvent'},
    type_rules=[
      (r'Handle_?$', 'wp', 'Handle'),
      (r'^HeterCallbackList<', 'record', 'HCLT'),
      (r'^HeterCallbackListBase<', 'record', 'HCLT'),
      (r'^std::(unordered_)?map<', 'map', 'WMap'),
      (r'^std::_Rb_tree_(const_)?iterator<|^std::__detail::_Node_(const_)?iterator(_base)?<', 'mapit', 'WMIt'),
      (r'^std::pair<const int, HeterCallbackList<', 'record', 'WPair'),
    ],
)
