"""unit configurations for the extractor"""
CLB = 'CallbackListBase<void (VArg), Pol>'
UNITS = {
  'callbacklist': dict(
    tu='inst/callbacklist.cpp', filter='CallbackListBase', std='c++11',
    root=('ClassTemplateSpecializationDecl', 'CallbackListBase'), root_q=CLB,
    names={CLB: 'CL', CLB + '::Node': 'Node', 'VArg': 'VArg', 'UserEach': 'UserEach', 'UserEachIf': 'UserEachIf'},
    value_records=['VArg'],
    opaque_records=['UserEach', 'UserEachIf', 'VArg'],
    skip_records=['Handle_'],
    type_rules=[(r'::Handle_?$', 'wp', 'Handle')],
    env_calls={'canContinueInvoking': 'canContinueInvoking'},
    ghost_sig=[('Node *', 'gK'), ('Node *', 'gW')],
    field_hooks={'Node.counter': 'NODE_SET_counter'},
    split_loops={'CL_doForEachIf__forEachIf__UserEachIf__lambda0': [0], 'CL_doForEachIf__forEach__UserEach__lambda0': [0],
                 'CL_doForEachIf__forEachIf__call__lambda0__lambda0': [0], 'CL_ownsHandle': [0], 'CL_doFreeAllNodes': [0],
                 'CL_getNextCounter': [0], 'CL_cloneFrom': [0]},
  ),
}
