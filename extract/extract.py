#!/usr/bin/env python3
"""extract.py <unit> <outdir> [--repo /repo]: dump the clang AST of the unit's instantiation TU against
<repo>/include and translate the instantiated member functions to C.  exit 0 ok, exit 2 on any
unsupported construct (never a violation)."""
import sys, os, subprocess, json, hashlib, time
here = os.path.dirname(os.path.abspath(__file__))
sys.path.insert(0, here)
import cxx2c, units

def main():
    unit = sys.argv[1]; outdir = sys.argv[2]
    repo = '/repo'
    if '--repo' in sys.argv: repo = sys.argv[sys.argv.index('--repo') + 1]
    cfg = dict(units.UNITS[unit])
    # configuration variants (C20): --std S, --tu FILE (an instantiation TU derived from the unit's own), --name N (output name)
    if '--std' in sys.argv: cfg['std'] = sys.argv[sys.argv.index('--std') + 1]
    if '--tu' in sys.argv: cfg['tu'] = sys.argv[sys.argv.index('--tu') + 1]
    outname = sys.argv[sys.argv.index('--name') + 1] if '--name' in sys.argv else unit
    # --cfg-subst FROM TO (repeatable): textual replacement in every string of the unit configuration (names of
    # template arguments that change with the policy, e.g. std::atomic<int> -> SingleThreading::Atomic<int>)
    def deep(x, a, b):
        if isinstance(x, str): return x.replace(a, b)
        if isinstance(x, list): return [deep(y, a, b) for y in x]
        if isinstance(x, tuple): return tuple(deep(y, a, b) for y in x)
        if isinstance(x, dict): return {deep(k, a, b): deep(v, a, b) for k, v in x.items()}
        return x
    for i, a in enumerate(sys.argv):
        if a == '--cfg-subst': cfg = deep(cfg, sys.argv[i + 1], sys.argv[i + 2])
    os.makedirs(outdir, exist_ok=True)
    astfn = os.path.join(outdir, outname + '.ast.json')
    t0 = time.time()
    filters = cfg['filter'] if isinstance(cfg['filter'], list) else [cfg['filter']]
    if cfg.get('equal_filters'):
        # clang's heap layout - hence the node ids - depends on the LENGTH of the filter string (it is copied into heap
        # strings whose chunk size follows the length): filters of one length give dumps whose ids agree, so each filter is
        # cut to the length of the shortest (a filter is a substring match: a shorter one only dumps more)
        k = min(len(f) for f in filters); filters = [f[:k] for f in filters]
    docs = []
    # node ids (addresses) are stable across clang runs on the same TU when ASLR is off: then a declaration referenced
    # from one dump can be looked up in another one by its id (checked below by running the first filter twice)
    pre = ['setarch', '-R'] if subprocess.run(['setarch', '-R', 'true'], capture_output=True).returncode == 0 else []
    stable = None; seen_ids = []; id_pairs = [0, 0]
    for flt in filters:
        cmd = pre + ['clang++', '-std=' + cfg.get('std', 'c++11'), '-I' + repo + '/include', '-fsyntax-only', '-Wno-everything', '-fgnuc-version=5.4.0',
               '-Xclang', '-ast-dump=json', '-Xclang', '-ast-dump-filter=' + flt, os.path.join(here, cfg['tu'])]
        with open(astfn, 'w') as f:
            r = subprocess.run(cmd, stdout=f, stderr=subprocess.PIPE, text=True)
        if r.returncode != 0:
            print('ERROR extraction: clang failed on the instantiation TU:\n' + r.stderr[-3000:]); sys.exit(2)
        if pre and stable is None and len(filters) > 1:
            import re as _re
            ids1 = _re.findall(r'"id": "(0x[0-9a-f]+)"', open(astfn).read(20000000))[:200]
            r2 = subprocess.run(cmd, stdout=subprocess.PIPE, stderr=subprocess.PIPE, text=True)
            stable = (r2.returncode == 0 and _re.findall(r'"id": "(0x[0-9a-f]+)"', r2.stdout[:20000000])[:200] == ids1 and len(ids1) > 0)
        nd = cxx2c.load_docs(astfn, prefix='D%d:' % len(docs))
        # cross-dump agreement of node ids, measured on the function declarations (keyed by mangled name) two dumps share
        def fids(ds):
            m = {}
            def w(n):
                if isinstance(n, dict):
                    if n.get('mangledName') and n.get('id') and n.get('loc'): m.setdefault((n.get('kind'), n['mangledName'], json.dumps(n.get('loc'), sort_keys=True)), n['id'].split(':', 1)[-1])
                    for c in n.get('inner', []): w(c)
            for d in ds: w(d)
            return m
        cur = fids(nd)
        for prev in seen_ids:
            common = set(prev) & set(cur)
            id_pairs[0] += len(common); id_pairs[1] += sum(1 for k in common if prev[k] != cur[k])
        seen_ids.append(cur)
        docs += nd
    cfg = dict(cfg); cfg['stable_ids'] = bool(stable)
    if id_pairs[1]:
        msg = f'node ids of {id_pairs[1]} of {id_pairs[0]} declarations shared by two AST dumps of unit {unit} do not agree'
        if cfg.get('equal_filters'):
            print('ERROR extraction: ' + msg + ' (references across dumps would be resolved by fallbacks)'); sys.exit(2)
        print('note: ' + msg + '; references across dumps fall back to name / type matching')
    if cfg.get('facts_only'):
        # a unit without functions: the enumerators of one record, folded by clang, become the macro SELECTION_FACTS
        vals = {}
        def cv(n):
            if 'value' in n and n.get('kind') in ('ConstantExpr', 'IntegerLiteral'): return n['value']
            for c in n.get('inner', []):
                v = cv(c)
                if v is not None: return v
        def walkv(n):
            if isinstance(n, dict):
                if n.get('kind') == 'EnumConstantDecl': vals[n['name']] = cv(n)
                for c in n.get('inner', []): walkv(c)
        for d in docs: walkv(d)
        ks = sorted({int(k.split('_')[1]) for k in vals if k.startswith('got_')})
        if not ks or any(vals.get('got_%d' % k) is None or vals.get('want_%d' % k) is None for k in ks):
            print('ERROR extraction: selection facts not folded by clang'); sys.exit(2)
        text = ('/* GENERATED by extract/extract.py from the enumerators clang folded in ' + cfg['tu'] + ' against /repo/include -- do not edit */\n'
                '#include "prims.h"\n#include "ghost_fields.h"\n#define SELECTION_FACTS ' + ' '.join('SELECT_FACT(%d, %s, %s)' % (k, vals['got_%d' % k], vals['want_%d' % k]) for k in ks) +
                '\n#define SELECTION_COUNT %d\n#include "prims_post.h"\n' % len(ks))
        open(os.path.join(outdir, outname + '.c'), 'w').write(text)
        json.dump(dict(unit=unit, functions=[], externs=[], loops=[], notes=['facts only: %d folded enumerator pairs' % len(ks)], seconds=round(time.time() - t0, 2)),
                  open(os.path.join(outdir, outname + '.meta.json'), 'w'), indent=1)
        os.remove(astfn)
        print(f'extracted unit {unit}: {len(ks)} selection facts, {time.time() - t0:.2f} s'); return
    tr = cxx2c.Translator(docs, cfg)
    roots = []
    try:
        def find_record(k2, n2, q2):
            ds = []
            def tr_match(n):
                targs = [a.get('type', {}).get('qualType', '') or (str(a['value']) if 'value' in a else '') for a in n.get('inner', []) if a.get('kind') == 'TemplateArgument']
                want = q2[q2.index('<') + 1:q2.rindex('>')] if '<' in q2 else ''
                got = ', '.join(cxx2c.strip_ns(a) for a in targs)
                if (not want) or (not targs) or want == got: return True
                gl = [cxx2c.strip_ns(a) for a in targs if a]       # template-template arguments carry no type in the dump
                return bool(gl) and len(gl) < len(targs) and all(g in want for g in gl) and want.endswith(gl[-1])
            def walk(n):
                if isinstance(n, dict):
                    if n.get('kind') == k2 and n.get('name') == n2 and n.get('completeDefinition') and tr_match(n): ds.append(n)
                    for c in n.get('inner', []): walk(c)
            for d in docs: walk(d)
            if not ds: raise cxx2c.Unsupported(f'root record {q2} not found in AST dump')
            return ds[-1]
        if not cfg.get('no_root'):       # (a unit of free functions only has no root record)
            kind, name = cfg['root']
            tr.register_record(find_record(kind, name, cfg['root_q']), cfg['root_q'])
        for q in cfg.get('opaque_records', []):
            tr.cnames.setdefault(q, q)
        for extra in cfg.get('extra_roots', []):
            k2, n2, q2 = extra
            tr.register_record(find_record(k2, n2, q2), q2)
        for q in list(tr.records):
            try:
                tr.emit_struct(q)
            except cxx2c.Unsupported as ex:
                if '--survey' in sys.argv: print('SURVEY struct', q, ex)
                else: raise
        want = cfg.get('functions')
        for q, rec in list(tr.records.items()):
            for c in rec.get('inner', []):
                k = c.get('kind')
                if k in ('CXXMethodDecl', 'CXXConstructorDecl', 'CXXDestructorDecl') and tr.has_body(c) and not c.get('isImplicit'):
                    if (want is None or c.get('name') in want) and c.get('name') not in cfg.get('skip_functions', []): roots.append(c)
                if k == 'FunctionTemplateDecl':
                    for x in c.get('inner', []):
                        if x.get('kind') in ('CXXMethodDecl', 'CXXConstructorDecl') and tr.has_body(x) and any(a.get('kind') == 'TemplateArgument' for a in x.get('inner', [])):
                            targs = [a.get('type', {}).get('qualType', '') for a in x.get('inner', []) if a.get('kind') == 'TemplateArgument']
                            if any('(lambda at ' + repo in a for a in targs):
                                continue   # instantiated on a library-internal lambda: emitted when its caller is
                            if want is None or x.get('name') in want: roots.append(x)
        ff = cfg.get('free_functions', [])
        if ff:
            seen_ids = set()
            def walkf(n):
                if isinstance(n, dict):
                    if n.get('kind') == 'FunctionDecl' and n.get('name') in ff and tr.has_body(n) and any(a.get('kind') == 'TemplateArgument' for a in n.get('inner', [])):
                        sig = (n.get('name'), n.get('type', {}).get('qualType'), tuple(a.get('type', {}).get('qualType', '') for a in n.get('inner', []) if a.get('kind') == 'TemplateArgument'))
                        if n['id'] not in seen_ids and sig not in seen_ids:
                            seen_ids.add(n['id']); seen_ids.add(sig); roots.append(n)
                    for c in n.get('inner', []): walkf(c)
            for d in docs: walkf(d)
        tr.run(roots, survey='--survey' in sys.argv)
        if tr.errors:
            print('SURVEY: %d functions with unsupported constructs' % len(tr.errors))
            for x in tr.errors: print('  ' + x)
            sys.exit(2)
    except cxx2c.Unsupported as e:
        print(f'ERROR extraction: unit {unit}: {e}'); sys.exit(2)
    text = tr.output(cfg.get('includes', ['prims.h']))
    if cfg.get('layout_records'):
        # layout facts of the REAL C++ records (size, alignment, field offsets as clang lays them out): used by
        # obligations about placement new into raw storage
        cmd = pre + ['clang++', '-std=' + cfg.get('std', 'c++11'), '-I' + repo + '/include', '-fsyntax-only', '-Wno-everything', '-fgnuc-version=5.4.0',
                     '-Xclang', '-fdump-record-layouts', os.path.join(here, cfg['tu'])]
        r = subprocess.run(cmd, stdout=subprocess.PIPE, stderr=subprocess.PIPE, text=True)
        if r.returncode != 0:
            print('ERROR extraction: clang -fdump-record-layouts failed'); sys.exit(2)
        import re as _re
        facts = []
        for q, cn in cfg['layout_records'].items():
            m = _re.search(r'\n\s+0 \| (?:class|struct) (?:eventpp::)?' + _re.escape(q) + r'\n(.*?)\[sizeof=(\d+), dsize=\d+, align=(\d+)', r.stdout, _re.S)
            if not m:
                print(f'ERROR extraction: no record layout for {q}'); sys.exit(2)
            facts.append(f'#define FACT_SIZEOF_{cn} {m.group(2)}'); facts.append(f'#define FACT_ALIGNOF_{cn} {m.group(3)}')
            for fm in _re.finditer(r'\n\s+(\d+) \|   (?!  )(.*?) (\w+)(?=\n)', '\n' + m.group(1)):
                facts.append(f'#define FACT_OFFSETOF_{cn}_{fm.group(3)} {fm.group(1)}')
        text = text.replace('#include "prims_post.h"', '/* layout facts of the real records (clang -fdump-record-layouts) */\n' + '\n'.join(facts) + '\n#include "prims_post.h"', 1)

    with open(os.path.join(outdir, outname + '.c'), 'w') as f: f.write(text)
    meta = dict(unit=unit, functions=[dict(name=f[0], proto=f[1], src=f[3], text=f[2]) for f in tr.funcs], extern_protos=tr.externs,
                externs=sorted(tr.externs), loops=tr.loop_keys, notes=tr.notes, seconds=round(time.time() - t0, 2))
    with open(os.path.join(outdir, outname + '.meta.json'), 'w') as f: json.dump(meta, f, indent=1)
    os.remove(astfn)
    print(f'extracted unit {unit}: {len(tr.funcs)} functions, {len(tr.externs)} environment stubs, {len(tr.loop_keys)} loops, {meta["seconds"]} s')

if __name__ == '__main__':
    main()
