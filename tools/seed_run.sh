#!/bin/bash
# usage: seed_run.sh <seed-id> <property> [<property>...]
# applies /verif/seeded/<seed-id>/patch.diff to /repo, runs the quick checks of the named properties, reverts, records the verdicts
id=$1; shift
d=/verif/seeded/$id
git -C /repo diff --quiet -- include || { echo "/repo has local modifications, refusing"; exit 2; }
git -C /repo apply $d/patch.diff || { echo "$id: patch does not apply"; exit 3; }
out=""
for p in "$@"; do
  VERIF_EVIDENCE_DIR=/tmp/seed_evidence /verif/bin/check $p --tier quick > /tmp/seedrun_$id_$p.log 2>&1; rc=$?
  v=$(grep -c "^VIOLATION" /tmp/seedrun_$id_$p.log)
  f=$(grep "^VIOLATION" /tmp/seedrun_$id_$p.log | sed -e 's/.*obligation=\([^ ]*\) failed=\([^ ]*\).*/\1:\2/' | head -3 | tr '\n' ' ')
  e=$(grep "^ERROR" /tmp/seedrun_$id_$p.log | head -2 | cut -c1-200 | tr '\n' ' ')
  out="$out $p:exit=$rc:violations=$v[$f$e]"
done
git -C /repo checkout -- include
echo "$id ->$out"
python3 - "$id" "$out" <<PY
import json,sys
id,out=sys.argv[1],sys.argv[2]
p="/verif/seeded/%s/meta.json"%id
m=json.load(open(p)); m["detected_by"]=out.strip(); json.dump(m,open(p,"w"),indent=1)
PY
