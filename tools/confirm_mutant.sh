#!/bin/bash
# usage: confirm_mutant.sh <seed-id> <patch.diff> <demo.cpp> <property> [notes.txt]
# Confirms in a scratch worktree of /repo (HEAD): patch applies, unit tests build and pass with it,
# the demo fails with the patch and passes without.  On success stores /verif/seeded/<seed-id>/.
id=$1; patch=$2; demo=$3; prop=$4; notes=$5
wt=/tmp/confirm_$id
rm -rf $wt; git -C /repo worktree prune
git -C /repo worktree add --detach $wt HEAD >/dev/null 2>&1 || { echo "$id: worktree failed"; exit 2; }
res="$id:"
ok=1
g++ -std=c++17 -I$wt/include -pthread $demo -o $wt/demo_without 2>$wt/demo_build.log
( cd $wt && git apply --3way $patch >/dev/null 2>&1 || git apply $patch ) || { echo "$id: PATCH DOES NOT APPLY to current HEAD"; git -C /repo worktree remove --force $wt; exit 3; }
git -C $wt diff HEAD -- include > $wt/applied.diff
g++ -std=c++17 -I$wt/include -pthread $demo -o $wt/demo_with 2>$wt/demo_build.log || { res="$res demo-does-not-compile"; ok=0; }
if [ $ok = 1 ]; then timeout 600 $wt/demo_with >/dev/null 2>&1; w=$?; else w=-1; fi
timeout 1800 $wt/demo_without >/dev/null 2>&1; wo=$?
cmake -G Ninja -S $wt/tests -B $wt/_bt -DCMAKE_BUILD_TYPE=RelWithDebInfo -DCMAKE_CXX_FLAGS="-Wno-error" >/dev/null 2>&1
cmake --build $wt/_bt --target unittest -j 6 >$wt/build.log 2>&1; b=$?
if [ $b = 0 ]; then timeout 900 $wt/_bt/unittest/unittest >$wt/test.log 2>&1; t=$?; else t=-1; fi
res="$res demo_with_patch_exit=$w demo_without_exit=$wo tests_build=$b tests_exit=$t"
if [ "$w" != 0 ] && [ "$wo" = 0 ] && [ "$b" = 0 ] && [ "$t" = 0 ]; then
  d=/verif/seeded/$id; mkdir -p $d
  cp $wt/applied.diff $d/patch.diff; cp $demo $d/demo.cpp; [ -n "$notes" ] && cp $notes $d/notes.txt
  tail -2 $wt/test.log > $d/tests_tail.txt
  python3 - "$id" "$prop" "$w" "$wo" <<PY
import json,sys
id,prop,w,wo=sys.argv[1:5]
json.dump({"id":id,"breaks_property":prop,"confirmed":{"patch_applies_to":"/repo HEAD","unit_tests_with_patch":"build ok, all pass","demo_exit_with_patch":int(w),"demo_exit_without_patch":int(wo)},
 "ran":["git apply patch.diff (scratch worktree)","cmake --build <wt>/_bt --target unittest && <wt>/_bt/unittest/unittest","g++ -std=c++17 -I<wt>/include -pthread demo.cpp && ./a.out (with / without patch)"],
 "needs_to_manifest":"see notes.txt","detected_by":"(filled in by tools/seed_run.sh)"}, open("/verif/seeded/%s/meta.json"%id,"w"), indent=1)
PY
  res="$res CONFIRMED"
else
  res="$res NOT-CONFIRMED"
fi
echo "$res"
git -C /repo worktree remove --force $wt
