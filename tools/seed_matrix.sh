#!/bin/bash
# usage: seed_matrix.sh [parallel] — runs every seed in /verif/seeded against the property it was written for
# (tools/seed_par.sh, private copies); prints one line per seed.  Extra properties per seed: seeded/<id>/also.txt
par=${1:-4}
cd /verif/seeded
for d in */; do
  id=${d%/}
  [ -f $id/patch.diff ] || continue
  p=$(python3 -c "import json;print(json.load(open('$id/meta.json')).get('breaks_property',''))" 2>/dev/null)
  [ -z "$p" ] && p=${id%%_*}
  extra=""; [ -f $id/also.txt ] && extra=$(cat $id/also.txt)
  echo "$id $p $extra" | sed -e "s/ *$//"
done | VERIF_JOBS=4 xargs -P $par -L1 /verif/tools/seed_par.sh 2>&1 | grep -- "->"
