#!/bin/bash
# usage: mkwt.sh <dir>   -- create a scratch git worktree of /repo at HEAD with a configured unit-test build
# (worktree lives outside /repo and /verif; remove with: git -C /repo worktree remove --force <dir>)
set -e
d="$1"
git -C /repo worktree add --detach "$d" HEAD >/dev/null 2>&1
cmake -G Ninja -S "$d/tests" -B "$d/_bt" -DCMAKE_BUILD_TYPE=RelWithDebInfo -DCMAKE_CXX_FLAGS="-Wno-error" >/dev/null
cat > "$d/runtests.sh" <<EOT
#!/bin/bash
# builds the unit tests of this worktree against this worktree's include/ and runs them
cd "$d" && cmake --build _bt --target unittest -j 8 2>&1 | tail -3 && ./_bt/unittest/unittest 2>&1 | tail -4
EOT
chmod +x "$d/runtests.sh"
echo "worktree ready: $d (run $d/runtests.sh)"
