#!/usr/bin/env python3
# prints the prompt handed to a fresh mutation sub-agent for one property (only the property text + a worktree path)
import json,sys
pid=sys.argv[1]; wt=sys.argv[2]; n=sys.argv[3] if len(sys.argv)>3 else "2"
p=[json.loads(l) for l in open('/verif/properties.jsonl') if json.loads(l)['id']==pid][0]
print(f"""You are testing how well a verification effort detects regressions in the C++ header-only library wqking/eventpp.
You have your own scratch git worktree of the library at {wt} (header files under {wt}/include/eventpp, unit tests under {wt}/tests/unittest).
Work ONLY inside {wt} (and new files you create under {wt}/demo). Do not read or touch /verif, and do not touch /repo.

Here is a semantic property of the library that should always hold:

  {p['id']} - {p['title']}
  Statement: {p['statement']}
  Quantified over: {p['quantifier']['text']}
  Relevant files: {', '.join(p['anchors']['files'])}

Your task: produce {n} DIFFERENT, independent source changes to the library headers (each one small and realistic - the kind of slip or 'optimisation' a maintainer could plausibly commit) such that each change
  (a) still compiles,
  (b) still passes the entire existing unit-test suite (run {wt}/runtests.sh - it builds and runs the Catch unit tests of this worktree; it must end with 'All tests passed'),
  (c) breaks the property above, and
  (d) needs something specific to manifest - a particular interleaving, an exception or fault at a particular point, a multi-step sequence of operations, an unusual input or type, or two cooperating sites that each look fine alone - NOT something that ordinary use would expose at once.
For each change also write a demonstration: a small standalone C++ program (demo/<name>.cpp, compiled with g++ -std=c++17 -I{wt}/include -pthread) that exits non-zero (or crashes / fails an assertion / is flagged by -fsanitize=address,undefined) WITH the change and exits 0 WITHOUT it. Verify both directions yourself.

Deliverables, for change k = 1..{n}:
  {wt}/demo/mut{{k}}.diff   - the change as a unified diff produced by `git -C {wt} diff -- include` (apply one change at a time; reset with `git -C {wt} checkout -- include` between changes)
  {wt}/demo/mut{{k}}.cpp    - the demonstration program
  {wt}/demo/mut{{k}}.txt    - 5-10 lines: what the change is, which part of the property it breaks, what it needs in order to manifest, the exact commands you ran and their results (tests pass with change; demo fails with change; demo passes without)
Leave the worktree's include/ directory UNCHANGED (reset) when you finish. Prefer changes in different functions / mechanisms from each other. If a candidate change makes an existing unit test fail, discard it and try another. Finish with a short summary of the {n} changes.""")
