#!/usr/bin/env python3
"""regenerates /verif/MANIFEST.json from spec/props.json (claimed properties) and spec/claims.json (texts)"""
import json, os
V = os.path.dirname(os.path.dirname(os.path.abspath(__file__)))
props = [json.loads(l) for l in open(os.path.join(V, 'properties.jsonl'))]
claimed = json.load(open(os.path.join(V, 'spec', 'props.json')))
claims = json.load(open(os.path.join(V, 'spec', 'claims.json')))
checks = []
na = []
for p in props:
    pid = p['id']
    if pid in claimed and claimed[pid].get('obligations'):
        c = claims.get(pid, {})
        checks.append({
            "property_id": pid,
            "quick_cmd": f"bin/check {pid} --tier quick",
            "thorough_cmd": f"bin/check {pid} --tier thorough",
            "evidence_file": f"/verif/evidence/{pid}.json",
            "replay_cmd_template": f"bin/check {pid} --replay {{path}}",
            "engine": "cbmc-dfcc",
            "level_claimed": {"category": claimed[pid].get('level', 'proof'), "text": c.get('text', ''), "design_ref": c.get('design_ref', 'DESIGN.md section 5')},
            "level_note": c.get('note', ''),
            "technique": c.get('technique', 'contract-based deductive verification: CBMC 6.11 code contracts (goto-instrument --dfcc, enforce per function, callees replaced by contract) on C extracted mechanically from the clang AST of /repo/include on every run'),
        })
    else:
        na.append({"property_id": pid, "reason": claims.get(pid, {}).get('na_reason', 'contract obligations not built (see DESIGN.md section 5)')})
m = {
    "version": 1,
    "setup_cmd": "true",
    "hooks": {"guard": "EVENTPP_VERIF", "enable": "no hooks in /repo: the checks read /repo/include of the working tree directly (clang AST dump on every run)",
              "baseline_off_cmd": "cmake --install /repo/_build --prefix /repo/_prefix >/dev/null && cmake --build /repo/_build_tests -j8 >/dev/null && ctest --test-dir /repo/_build_tests -j8 --timeout 900",
              "source_commits": [], "add_only": True},
    "engines": [{"name": "cbmc-dfcc", "path": "bin/check", "serves_properties": [c['property_id'] for c in checks],
                 "kind_free_text": "extract/ (clang 14 JSON AST of the instantiations in extract/inst -> C on every run, closed vocabulary listed in extract/rules.md, abort with exit 2 on anything else) + spec/ contracts (CBMC code contracts: requires / ensures / assigns / loop invariants / decreases) + goto-cc, goto-instrument --dfcc --enforce-contract f --replace-call-with-contract g --apply-loop-contracts, cbmc per function; minisat and cadical raced (quick) or both required to agree (thorough, plus native replays under ASan/UBSan as regression)"}],
    "checks": checks,
    "not_applicable": na,
    "notes": "exit 0 = all obligations discharged; exit 1 = VIOLATION line(s); exit 2 = infrastructure error / undecided (never a violation). Fixed defects are listed in known_findings.json (fixed: entries suppress nothing).",
}
json.dump(m, open(os.path.join(V, 'MANIFEST.json'), 'w'), indent=1)
print('claimed:', [c['property_id'] for c in checks])
