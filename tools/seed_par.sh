#!/bin/bash
# usage: seed_par.sh <seed-id> <property> [<property>...]
# like seed_run.sh but never touches /repo: the patch is applied to a private copy of /repo's tracked tree (git archive
# of HEAD), the checks read that copy (VERIF_REPO) and use a private work directory, so several seeds can run at once.
id=$1; shift
d=/verif/seeded/$id
wt=/tmp/seedwt_$id
rm -rf $wt; mkdir -p $wt/repo
git -C /repo archive HEAD include | tar -x -C $wt/repo
( cd $wt/repo && git init -q . && git apply $d/patch.diff ) || { echo "$id: patch does not apply"; rm -rf $wt; exit 3; }
out=""
for p in "$@"; do
  VERIF_REPO=$wt/repo VERIF_WORK=$wt/work VERIF_EVIDENCE_DIR=$wt/ev VERIF_JOBS=${VERIF_JOBS:-4} ${VERIF_HOME:-/verif}/bin/check $p --tier quick > /tmp/seedrun_${id}_$p.log 2>&1; rc=$?
  v=$(grep -c "^VIOLATION" /tmp/seedrun_${id}_$p.log)
  f=$(grep "^VIOLATION" /tmp/seedrun_${id}_$p.log | sed -e 's/.*obligation=\([^ ]*\) failed=\([^ ]*\).*/\1:\2/' | head -3 | tr '\n' ' ')
  e=$(grep "^ERROR" /tmp/seedrun_${id}_$p.log | head -2 | cut -c1-200 | tr '\n' ' ')
  out="$out $p:exit=$rc:violations=$v[$f$e]"
done
rm -rf $wt
echo "$id ->$out"
python3 - "$id" "$out" <<PY
import json,sys
id,out=sys.argv[1],sys.argv[2]
p="/verif/seeded/%s/meta.json"%id
import os
m=json.load(open(p))
m["detected_by"]=((m.get("detected_by","")+" ") if os.environ.get("SEED_APPEND") else "")+out.strip()
json.dump(m,open(p,"w"),indent=1)
PY
