#!/usr/bin/env python3
# usage: showfn.py <unit.c> <fn> [<fn>...] : print the definitions of the named extracted functions
import sys,re
s=open(sys.argv[1]).read()
for fn in sys.argv[2:]:
    m=re.search(r'^[^\n;]*\b'+re.escape(fn)+r'\([^\n;]*\)\n#ifdef USE_CONTRACT_\w+\nCONTRACT\('+re.escape(fn)+r'\)\n#endif\n\{.*?\n\}\n', s, re.S|re.M)
    print(m.group(0) if m else f'-- {fn}: not found')
