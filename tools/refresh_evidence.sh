#!/bin/bash
# re-runs every claimed quick check on the current (unchanged) tree so that the committed evidence files come from clean runs
cd /verif
git -C /repo diff --quiet -- include || { echo "/repo has local modifications"; exit 2; }
for p in $(python3 -c "import json;print(' '.join(c['property_id'] for c in json.load(open('MANIFEST.json'))['checks']))"); do
  bin/check $p --tier quick | tail -1
done
